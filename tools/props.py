"""Per-property configuration of the checks: which oracle clauses, which TLC configurations,
which execution families, how non-trivial cases are counted."""
import json


def _threads(evs):
    return {e["t"] for e in evs if e.get("e") == "inv"}


def _overlap_write(evs, ops):
    """some op in `ops` has a write by another thread between its inv and ret"""
    open_ = {}
    for e in evs:
        k = e.get("e")
        if k == "inv" and e["op"] in ops:
            open_[e["t"]] = e.get("c")
        elif k == "ret" and e["t"] in open_:
            del open_[e["t"]]
        elif k == "w":
            for t, c in open_.items():
                if t != e["t"]:
                    return True
    return False


def _has(evs, pred):
    return any(pred(e) for e in evs)


NONTRIVIAL = {
    "default": ("distinct executions (hash of the API-level event sequence) with >= 2 threads inside operations",
                lambda evs: len(_threads(evs)) >= 2),
    "C01": ("distinct executions in which a value is destroyed while >= 2 threads use the container",
            lambda evs: len(_threads(evs)) >= 3 and _has(evs, lambda e: e["e"] == "destroy")),
    "C02": ("distinct executions with >= 2 threads, a write and a guard/handle release",
            lambda evs: len(_threads(evs)) >= 3 and _has(evs, lambda e: e["e"] == "w") and _has(evs, lambda e: e["e"] == "inv" and e["op"] in ("drop_g", "into_inner"))),
    "C03": ("distinct executions in which a load overlaps a write by another thread",
            lambda evs: _overlap_write(evs, ("load", "load_full"))),
    "C04": ("distinct executions in which a swap/store overlaps a write by another thread",
            lambda evs: _overlap_write(evs, ("swap", "store", "cas", "rcu"))),
    "C05": ("distinct executions in which a compare_and_swap overlaps a write by another thread",
            lambda evs: _overlap_write(evs, ("cas",))),
    "C06": ("distinct executions in which an rcu overlaps a write by another thread",
            lambda evs: _overlap_write(evs, ("rcu",))),
    "C10": ("distinct executions in which a guard is dereferenced after a later write or dropped by another thread",
            lambda evs: _has(evs, lambda e: e["e"] == "deref" and e["k"] == "g") and _has(evs, lambda e: e["e"] == "w")),
    "C11": ("distinct executions with >= 3 thread exits and node reuse",
            lambda evs: sum(1 for e in evs if e["e"] == "gone") >= 4),
    "C12": ("distinct executions touching >= 2 containers from >= 2 threads",
            lambda evs: len({e["c"] for e in evs if e["e"] == "w"}) >= 2 and len(_threads(evs)) >= 3),
    "C13": ("distinct executions in which the generation counter wraps (setgen event) ",
            lambda evs: _has(evs, lambda e: e["e"] == "setgen")),
    "C16": ("distinct executions with a cache load after a write",
            lambda evs: _has(evs, lambda e: e["e"] == "inv" and e["op"] == "cache_load") and _has(evs, lambda e: e["e"] == "w")),
    "C18": ("distinct executions in which user code panicked inside an operation",
            lambda evs: _has(evs, lambda e: e["e"] == "panic" and e.get("user"))),
}

CONC_PLAN = {
    "quick": [("rw", 700), ("cas", 700), ("guards", 300), ("multi", 500), ("churn", 400), ("cache", 400),
              ("panic", 500), ("wrap", 300), ("tls", 300), ("drop", 200), ("mixed", 700)],
    "thorough": [("rw", 8000), ("cas", 8000), ("guards", 3000), ("multi", 6000), ("churn", 5000), ("cache", 4000),
                 ("panic", 5000), ("wrap", 3000), ("tls", 3000), ("drop", 2000), ("mixed", 10000)],
}

# TLC model-checking configurations per property (filled as the specifications grow)
MC = {}

# Extra, property-specific stages: functions (tier, seed, key, pipeline) -> dict
EXTRA = {}

PROPS = {}


def context_of(v, job):
    """History shape of a violation, used in the key of known findings."""
    ev = v.get("ev", {})
    ctx = []
    prog = json.dumps(job.get("prog", {}))
    if '"set_gen"' in prog:
        ctx.append("genwrap")
    if v["prop"] == "C18" or ev.get("e") == "panic":
        ctx.append("fam=" + str(job.get("fam")))
    return ",".join(ctx)

_A = ["one shim event = one atomic access; thread-local code between two accesses is invisible to other threads",
      "executions are sequentially consistent interleavings produced by the baton scheduler (weak-memory clauses are decided by the Mem specification)",
      "bounds: <= 5 threads, <= 4 operations per thread in the random families; TLC configurations as listed in mc_runs"]

for _p in ["C01", "C02", "C03", "C04", "C05", "C06", "C10", "C12"]:
    PROPS[_p] = {"level": "model_checking", "conc": True, "assumptions": _A}

"""Per-property configuration of the checks: which oracle clauses, which TLC configurations,
which execution families, how non-trivial cases are counted."""
import json


def _threads(evs):
    return {e["t"] for e in evs if e.get("e") == "inv"}


def _overlap_write(evs, ops):
    """some op in `ops` has a write by another thread between its inv and ret"""
    open_ = {}
    for e in evs:
        k = e.get("e")
        if k == "inv" and e["op"] in ops:
            open_[e["t"]] = e.get("c")
        elif k == "ret" and e["t"] in open_:
            del open_[e["t"]]
        elif k == "w":
            for t, c in open_.items():
                if t != e["t"]:
                    return True
    return False


def _has(evs, pred):
    return any(pred(e) for e in evs)


NONTRIVIAL = {
    "default": ("distinct executions (hash of the API-level event sequence) with >= 2 threads inside operations",
                lambda evs: len(_threads(evs)) >= 2),
    "C01": ("distinct executions in which a value is destroyed while >= 2 threads use the container",
            lambda evs: len(_threads(evs)) >= 3 and _has(evs, lambda e: e["e"] == "destroy")),
    "C02": ("distinct executions with >= 2 threads, a write and a guard/handle release",
            lambda evs: len(_threads(evs)) >= 3 and _has(evs, lambda e: e["e"] == "w") and _has(evs, lambda e: e["e"] == "inv" and e["op"] in ("drop_g", "into_inner"))),
    "C03": ("distinct executions in which a load overlaps a write by another thread",
            lambda evs: _overlap_write(evs, ("load", "load_full"))),
    "C04": ("distinct executions in which a swap/store overlaps a write by another thread",
            lambda evs: _overlap_write(evs, ("swap", "store", "cas", "rcu"))),
    "C05": ("distinct executions in which a compare_and_swap overlaps a write by another thread",
            lambda evs: _overlap_write(evs, ("cas",))),
    "C06": ("distinct executions in which an rcu overlaps a write by another thread",
            lambda evs: _overlap_write(evs, ("rcu",))),
    "C10": ("distinct executions in which a guard is dereferenced after a later write or dropped by another thread",
            lambda evs: _has(evs, lambda e: e["e"] == "deref" and e["k"] == "g") and _has(evs, lambda e: e["e"] == "w")),
    "C11": ("distinct executions with >= 3 thread exits and node reuse",
            lambda evs: sum(1 for e in evs if e["e"] == "gone") >= 4),
    "C12": ("distinct executions touching >= 2 containers from >= 2 threads",
            lambda evs: len({e["c"] for e in evs if e["e"] == "w"}) >= 2 and len(_threads(evs)) >= 3),
    "C13": ("distinct executions in which the generation counter wraps (setgen event) ",
            lambda evs: _has(evs, lambda e: e["e"] == "setgen")),
    "C16": ("distinct executions with a cache load after a write",
            lambda evs: _has(evs, lambda e: e["e"] == "inv" and e["op"] == "cache_load") and _has(evs, lambda e: e["e"] == "w")),
    "C18": ("distinct executions in which user code panicked inside an operation",
            lambda evs: _has(evs, lambda e: e["e"] == "panic" and e.get("user"))),
}

CONC_PLAN = {
    "quick": [("rw", 700), ("cas", 700), ("guards", 300), ("multi", 500), ("churn", 400), ("cache", 400),
              ("panic", 500), ("wrap", 300), ("tls", 300), ("drop", 200), ("mixed", 700)],
    "thorough": [("rw", 8000), ("cas", 8000), ("guards", 3000), ("multi", 6000), ("churn", 5000), ("cache", 4000),
                 ("panic", 5000), ("wrap", 3000), ("tls", 3000), ("drop", 2000), ("mixed", 10000)],
}

# TLC model-checking configurations per property (filled as the specifications grow)
MC = {}

# Extra, property-specific stages: functions (tier, seed, key, pipeline) -> dict
EXTRA = {}

PROPS = {}


def context_of(v, job):
    """History shape of a violation, used in the key of known findings."""
    ev = v.get("ev", {})
    ctx = []
    prog = json.dumps(job.get("prog", {}))
    if '"set_gen"' in prog:
        ctx.append("genwrap")
    evs = v.get("evs", [])
    pan = [i for i, e in enumerate(evs) if e.get("e") == "panic" and e.get("user")]
    if pan and "C18" in v["prop"]:
        i = pan[-1]
        t = evs[i]["t"]
        invs = [e for e in evs[:i] if e.get("e") == "inv" and e.get("t") == t]
        op = invs[-1]["op"] if invs else "?"
        ctx.append("panic-in=" + op)
        if evs[i].get("msg", "").startswith("asv: user destructor"):
            # which value's destructor: the one displaced by this op's own write, the rejected argument, or a third one
            j0 = max([k for k, e in enumerate(evs[:i]) if e.get("e") == "inv" and e.get("t") == t] or [0])
            dest = [e["o"] for e in evs[j0:i] if e.get("e") == "destroy" and e.get("t") == t]
            olds = [e["old"] for e in evs[j0:i] if e.get("e") == "w" and e.get("t") == t]
            args = [e["v"] for e in evs[j0:i] if e.get("e") == "arg" and e.get("t") == t]
            d = dest[-1] if dest else -1
            ctx.append("dtor-of=" + ("displaced" if d in olds else "rejected-argument" if (d in args and not olds and op == "cas") else "other-value"))
            # where in the operation: after its own exchange (i.e. during the walk over the debts / the helping of readers) or before
            ctx.append("after-own-write" if olds else "before-own-write")
        else:
            ctx.append("closure")
    return ",".join(ctx)


_A = ["one shim event = one atomic access; thread-local code between two accesses is invisible to other threads",
      "executions are sequentially consistent interleavings produced by the baton scheduler (weak-memory clauses are decided by the Mem specification)",
      "bounds: <= 5 threads, <= 4 operations per thread in the random families; TLC configurations as listed in mc_runs"]

for _p in ["C01", "C02", "C03", "C04", "C05", "C06", "C10", "C12"]:
    PROPS[_p] = {"level": "model_checking", "conc": True, "assumptions": _A}


def _mc(name, expect="ok", timeout=1500, workers=8, simulate=0, spec="MC_Impl.tla"):
    """simulate > 0: the state space is too large to exhaust; TLC explores that many random behaviours instead (depth 400)"""
    return {"spec": spec, "cfg": "MC_%s.cfg" % name, "expect": expect, "timeout": timeout, "workers": workers, "simulate": simulate}


# the lock-based reference strategy as its own implementation-shaped specification (spec/RwLockImpl.tla)
_RWL = [_mc(n, workers=2, spec="MC_RwLock.tla") for n in ("rwl_rw", "rwl_cassw", "rwl_cas2", "rwl_3")] + [_mc("rwl_bug_cas", "Refines", workers=2, spec="MC_RwLock.tla")]


_NEG = [_mc("bug_confirm", "Refines"), _mc("bug_hslot", "Refines"), _mc("bug_nohelp", "Refines"), _mc("bug_nowalk", "Refines")]
MC.update({
    "C01": {"quick": [_mc("rw1"), _mc("rw1_nf0"), _mc("rw1h_nf0"), _mc("lfsw")] + _NEG,
            "thorough": [_mc("rw1"), _mc("rw1_nf0"), _mc("rw1_nf2"), _mc("rw1h"), _mc("rw1h_nf0"), _mc("lfsw"), _mc("lfsw_nf0"),
                         _mc("2r1w"), _mc("2r1w_nf0"), _mc("1r2w", simulate=40000, timeout=2400), _mc("rculd", simulate=40000, timeout=2400)] + _NEG},
    "C02": {"quick": [_mc("rw1"), _mc("rw1h"), _mc("lfsw_nf0"), _mc("bug_hslot", "Refines")],
            "thorough": [_mc("rw1"), _mc("rw1h"), _mc("rw1h_nf0"), _mc("lfsw"), _mc("lfsw_nf0"), _mc("2r1w"), _mc("2r1w_nf0"), _mc("rcu2"), _mc("bug_hslot", "Refines")]},
    "C03": {"quick": [_mc("rw1"), _mc("rw1_nf0"), _mc("lfsw"), _mc("2c"), _mc("bug_confirm", "Refines")],
            "thorough": [_mc("rw1"), _mc("rw1_nf0"), _mc("rw1_nf2"), _mc("lfsw"), _mc("lfsw_nf0"), _mc("2c"), _mc("2c_nf0"), _mc("2r1w"), _mc("2r1w_nf0"), _mc("rculd", simulate=40000, timeout=2400), _mc("bug_confirm", "Refines"),
                         _mc("hc", timeout=3600, workers=14), _mc("bug_hc_space", "EnvelopeLinear", timeout=3600, workers=14), _mc("bug_hc_addr", "Refines", timeout=3600, workers=14)]},
    "C04": {"quick": [_mc("lfsw"), _mc("lfsw_nf0"), _mc("rcust")] + _RWL,
            "thorough": [_mc("lfsw"), _mc("lfsw_nf0"), _mc("rcust"), _mc("rcu2"), _mc("1r2w", simulate=40000, timeout=2400), _mc("1r2w_nf0", simulate=40000, timeout=2400)] + _RWL},
    "C05": {"quick": [_mc("rcust"), _mc("cas"), _mc("cas2")] + _RWL, "thorough": [_mc("rcust"), _mc("cas"), _mc("cas2"), _mc("cas_nf0"), _mc("rcu2"), _mc("rcu2_nf0", simulate=40000, timeout=2400), _mc("rculd", simulate=40000, timeout=2400)] + _RWL},
    "C06": {"quick": [_mc("rcust")], "thorough": [_mc("rcust"), _mc("rcu2"), _mc("rcu2_nf0", simulate=40000, timeout=2400), _mc("rculd", simulate=40000, timeout=2400)]},
    "C08": {"quick": [_mc("rw1"), _mc("rw1_nf0"), _mc("rw1h"), _mc("rw1h_nf0")],
            "thorough": [_mc("rw1"), _mc("rw1_nf0"), _mc("rw1_nf2"), _mc("rw1h"), _mc("rw1h_nf0"), _mc("2r1w"), _mc("2r1w_nf0")]},
    "C09": {"quick": [_mc("solo_rw1"), _mc("solo_rw1_nf0"), _mc("solo_churn"), _mc("bug_solo_cooldown", "SoloBound"), _mc("live_rw1", workers=2), _mc("live_rw1_nf0", workers=2), _mc("live_bug_wait", "Termination", workers=2)],
            "thorough": [_mc("solo_rw1"), _mc("solo_rw1_nf0"), _mc("solo_churn"), _mc("bug_solo_cooldown", "SoloBound"), _mc("solo_rcust", timeout=3000), _mc("live_rw1", workers=2), _mc("live_rw1_nf0", workers=2), _mc("live_lfsw", workers=2),
                         _mc("live_churn", workers=2), _mc("live_2c_nf0", workers=2), _mc("live_rcust", workers=4), _mc("live_bug_wait", "Termination", workers=2)]},
    "C10": {"quick": [_mc("rw1h"), _mc("rw1h_nf0"), _mc("churn")],
            "thorough": [_mc("rw1h"), _mc("rw1h_nf0"), _mc("churn"), _mc("churn2")]},
    "C11": {"quick": [_mc("churn"), _mc("churn_nf0")], "thorough": [_mc("churn"), _mc("churn_nf0"), _mc("churn2")]},
    "C12": {"quick": [_mc("2c"), _mc("2c_nf0")], "thorough": [_mc("2c"), _mc("2c_nf0"), _mc("hc", timeout=3600, workers=14), _mc("bug_hc_addr", "Refines", timeout=3600, workers=14)]},
    "C13": {"quick": [_mc("wrap_fixed"), _mc("wrapw_fixed"), _mc("wrap2c_fixed"), _mc("wrap_code", "Refines"), _mc("bug_wrap_cycle", "Refines")],
            "thorough": [_mc("wrap_fixed"), _mc("wrapw_fixed"), _mc("wrap2c_fixed"), _mc("wrap_code", "Refines"), _mc("bug_wrap_cycle", "Refines")]},
    "C16": {"quick": [_mc("cache"), _mc("cache_nf0"), _mc("bug_cache", "Refines")],
            "thorough": [_mc("cache"), _mc("cache_nf0"), _mc("cache2"), _mc("bug_cache", "Refines")]},
    "C18": {"quick": [], "thorough": []},
    "C14": {"quick": _RWL, "thorough": _RWL},
})
for _p in ["C08", "C09", "C11", "C13"]:
    PROPS[_p] = {"level": "model_checking", "conc": True, "assumptions": _A}
PROPS["C18"] = {"level": "fault_enumeration", "conc": True, "assumptions": _A + ["panics of RefCnt::inc/clone of third-party pointer types are out of scope"]}
PROPS["C16"] = {"level": "model_checking", "conc": True, "assumptions": _A}
PROPS["C17"] = {"level": "exploration", "conc": True, "assumptions": _A + ["projection chains: container, Map (static), Box<dyn DynAccess>, Map of Map, AccessConvert, ArcSwapAny::map over a reference"]}
NONTRIVIAL["C17"] = ("distinct executions in which a projection guard is dereferenced after a write", lambda evs: _has(evs, lambda e: e["e"] == "deref" and e.get("k") == "p") and _has(evs, lambda e: e["e"] == "w"))
CONC_PLAN["quick"] += [("rwlock", 800), ("panic_help", 400), ("help2w", 2500), ("aba", 500), ("adv", 150), ("solo", 1500), ("solo2c", 300), ("access", 600), ("cache2", 1500), ("serde", 500), ("rcu_reentrant", 60)]
CONC_PLAN["thorough"] += [("rwlock", 10000), ("panic_help", 4000), ("help2w", 40000), ("aba", 5000), ("adv", 1500), ("solo", 20000), ("solo2c", 3000), ("access", 6000), ("cache2", 15000), ("serde", 5000), ("rcu_reentrant", 400)]

NOT_APPLICABLE = {}
MANIFEST_TEXT = {
    "default": {"text": "TLC exhaustively checks the implementation-shaped specification (one action per atomic access) against the observable specification on small configurations; every execution of the real crate under random/PCT/systematic/TLC-derived schedules is validated by TLC against the observable specification, clause by clause."},
    "C01": {"text": "Model checking: ArcSwapImpl (both read paths, nested helping, address reuse, node reuse) refines ArcSwapAbs incl. 'every held handle is live' on 8 (quick) / 15 (thorough) TLC configurations, 4 seeded model bugs must be caught. Conformance: ~40k (quick) executions of the real crate (random, PCT, all 2- and 3-context-switch schedules of reader x writer pairs, 2100 TLC behaviours replayed at the exact accesses) validated by TLC against ArcSwapAbs: no count operation or dereference after destruction, no destruction while a handle/guard/container refers to the value. Weak-memory clause: spec/WeakFast.tla and WeakHelp.tla (stale reads, ISO reading of SeqCst) model-checked under the ordering table extracted from the code (found F7)."},
    "C02": {"text": "Ledger clauses of ArcSwapAbs at every quiescent point of every execution (count + occupied slots = owners, owner-less values destroyed, no slot without guard, no open read transaction), and the Ledger / EnvelopeLinear invariants of ArcSwapImpl under TLC."},
    "C03": {"text": "LoadOK: the returned value was stored in the container at some instant of the call (seen-set semantics, deterministic because the exchange events are in the trace); checked by TLC on ArcSwapImpl (refinement) and on every real execution."},
    "C04": {"text": "Every exchange on the container continues the single write order (old = stored value), one exchange per operation, swap/rcu/cas hand back exactly the displaced value, a result equal to `current` implies an exchange; TLC on ArcSwapImpl (2 writers, rcu x store) and on every real execution."},
    "C05": {"text": "CasOK clauses (replaces iff equal, returns the previous value, success visible by pointer equality, rejected new released) incl. A-B-A schedules (same value stored back between the internal load and the exchange, all 2/3-switch schedules) and every AsRaw form of `current`."},
    "C06": {"text": "RcuOK: the installed value was computed from exactly the displaced one (parent tag), discarded attempts never visible; rcu x rcu / rcu x store under TLC, all 2/3-switch schedules incl. A-B-A on the real crate."},
    "C07": {"level_note": "interleavings only: defects that need a stale (non-latest) read are not visible to this monitor; VPtr follows Arc's count protocol", "text": "Happens-before monitor (spec/Mem.tla: vector clocks, release sequences, fences, Arc count protocol) over the atomic accesses the real code performed with the orderings it requested: every dereference needs the initialisation of the value in its past, every destruction needs all accesses in its past. Schedules: victim reader x atomic writers at every pair of reader steps with address reuse (found F2), random families, directed needles. The ordering table is extracted from the traces and drives the weak-memory models WeakFast.tla / WeakHelp.tla (view-based, stale reads, ISO SeqCst; found F7 and F8).", "technique": "TLA+ happens-before specification (Mem.tla) used as a TLC trace monitor over real executions"},
    "C08": {"text": "LoadSteps invariant of ArcSwapImpl under all interleavings (TLC) and the step bound clause of ArcSwapAbs on real executions under an adversary that completes k writes after every reader step (150-600 writes available, 0-12 guards held, both strategies); a second bound (4x) for every load, also those that have to find their bookkeeping first (thread-local destructors, first load, after the wrap): they may walk the list of nodes but never wait."},
    "C09": {"text": "SoloProgress (ENABLED Step(t) whenever everybody else is frozen, from every reachable state) under TLC, SoloBound (the solo thread finishes its operation within 120 own steps - a loop waiting for somebody else's progress keeps a step enabled; seeded model bug 'cooldown_wait' must violate it), plus the temporal property Termination (every operation completes under weak fairness; a seeded model bug must violate it); on the real crate a randomly chosen thread is run alone from a random point and must finish its operation within SoloStepBound own steps; non-terminating executions are violations."},
    "C10": {"text": "GuardStable/NoUAF clauses for guards: > 8 guards, guards dropped on other threads, creating thread exited, node re-claimed, container dropped first; TLC configurations rw1h, churn, churn2; real executions of the guards/churn/drop families and systematic schedules; the hand-over of a node between threads under weak memory (spec/WeakNode.tla: the next owner must see the debts of guards that outlive the previous one) model-checked under the ordering table extracted from the code."},
    "C11": {"text": "Node life-cycle in ArcSwapImpl (NodeExclusive, NodeUsedOwned, NodeBound) under TLC; on real executions the node-protocol monitor of Mem.tla (transaction state touched only by the owner or a registered writer; no hand-over while a pre-cool-down writer is inside; single owner), the bound #nodes <= 2 x peak threads, operations from thread-local destructors, systematic re-claim-under-writer schedules; at every return the node a thread considers its own is reserved and not shared; at every quiescent point not more nodes are reserved than threads are alive and no two nodes offer the same hand-over envelope."},
    "C12": {"text": "Two containers under TLC (2c configurations); on real executions a load that returns a value only ever stored in another container is attributed to C12 (foreign-value clause), multi/solo2c families, re-claim schedules across containers."},
    "C13": {"text": "GenMod = 2 in ArcSwapImpl: the design of 1.7.1 (WrapMode code) violates NoPanic (negative control = finding F1), the repaired design (fixed) holds all invariants incl. the nested case; on the real crate the generation counter is preset next to the wrap (verif::set_generation), incl. the wrap inside a writer's nested load at every reader position; a full cycle of the generations while a writer is stopped inside help (model bug wrap_not_detected / until:wrap-cycle schedules); any panic, abort or hang of an operation is a violation, and so is any other clause failing in an execution with a preset counter."},
    "C14": {"text": "The lock-based strategy has its own implementation-shaped specification (spec/RwLockImpl.tla: lock operations and accesses of rw_lock.rs + lib.rs), model-checked against the same ArcSwapAbs (4 configurations incl. 3 threads, Termination under fairness, seeded bug 'compare_and_swap not atomic' must be caught), and is executed concurrently on the real crate (the scheduler takes the baton away from a thread that blocks on the lock). All sequential programs of length <= 2 (thorough: 3) plus random deeper ones are enumerated by TLC from spec/SeqGen.tla and executed under DefaultStrategy, the fallback-only strategy and RwLock<()>; ArcSwapAbs pins every returned identity and every count in a sequential run; the identities must also agree across the strategies."},
    "C15": {"text": "All operation sequences (into_ptr, from_ptr, as_ptr, inc, dec, clone, drop, upgrade, drop of the target) up to length 4/5 from 20 initial count states are enumerated by TLC from spec/RefCntLaws.tla with the predicted counts and executed on the real impls for 4 pointee layouts."},
    "C16": {"text": "Cache::new / Cache::load (Relaxed pointer compare + load_full, release of the superseded value) are actions of ArcSwapImpl, model-checked against the cache clauses of ArcSwapAbs (seeded model bug 'never revalidates' must be caught). Cache clauses of ArcSwapAbs (value returned was stored during the call, i.e. current-or-newer and never older than the previous result) on concurrent executions incl. a store landing at every point inside Cache::load followed by address reuse; sequential cache programs via SeqGen; all programs of <= 4 (thorough: 5) stores / loads through every way of looking through a cache (inherent load, the Access trait, a mapped cache, a clone; ArcSwap and ArcSwapOption with None) enumerated by TLC from spec/CacheViews.tla with the predicted result and the predicted strong count of every value after every step."},
    "C17": {"text": "Projection guards through Access, Map (static), Box<dyn DynAccess>, Map of Map, AccessConvert and ArcSwapAny::map: the snapshot shown is one value stored during the load, stays the same and alive for the guard's life while stores happen."},
    "C18": {"text": "Fault enumeration: panicking destructors at every site where the library drops a value (displaced by store, rejected by compare_and_swap/rcu, candidate of a helped fallback load, guard drop) and panicking rcu closures on attempt 1..3, under contention; systematically: the stored value has a panicking destructor and the container is its only owner, a load / load_full / rejected compare_and_swap / rcu is stopped at every point while a store completes and then releases the last reference inside the library; after unwinding the ledger clauses must hold (tagged C18)."},
    "C19": {"text": "TLC evaluates the auto-trait algebra of spec/AutoTraits.tla (440 instantiations: handles Arc/&/Rc/Box, projections thread-bound/shareable) incl. its soundness clause; rustc answers the same 880 questions about the real types through a compile-time probe; each row must be sound and, except DynGuard, exact.", "technique": "TLA+ table (AutoTraits.tla) evaluated by TLC, compared with rustc's answers"},
    "C20": {"text": "Value shapes enumerated by TLC (SerdeShapes.tla); for each: serialize(container) = serialize(stored pointer), deserialize gives the value with a single reference, round trip, for ArcSwap / ArcSwapOption (Some, None) under 3 strategies.", "technique": "TLC-enumerated inputs, relational oracle on the real serde impls"},
}


# ------------------------------------------------------------------ C07: happens-before monitor
def pb_jobs(strategies=("default", "nofast"), kmax=24):
    """victim reader x atomic writers at every pair of victim steps, with address reuse"""
    def new():
        return {"new": {"pd": False}}
    jobs = []
    for strat in strategies:
        for shape in ("load", "load_full"):
            for k1 in range(0, kmax - 2):
                for k2 in range(k1, kmax):
                    if shape == "load":
                        vic = [{"op": "load", "c": 0, "g": 16}, {"op": "deref_g", "g": 16}, {"op": "drop_g", "g": 16}]
                    else:
                        vic = [{"op": "load_full", "c": 0, "h": 16}, {"op": "deref_h", "h": 16}, {"op": "drop_h", "h": 16}]
                    prog = {"threads": [[{"op": "new", "c": 0, "v": new()}],
                                        [{"op": "wait", "t": 0}] + vic,
                                        [{"op": "wait", "t": 0}, {"op": "store", "c": 0, "v": new()}],
                                        [{"op": "wait", "t": 0}, {"op": "store", "c": 0, "v": new()}, {"op": "store", "c": 0, "v": new()}]],
                            "strategy": strat, "reuse": "lifo"}
                    jobs.append({"fam": "pb_aba", "prog": prog, "sched": {"kind": "pb", "victim": 1, "points": [[k1, 2], [k2, 3]]}})
    return jobs


def mem_stage(tier, seed, key, P):
    import gen, json, os, time
    wd = os.path.join(P.CACHE, "%s-%s-%d-mem" % (key, tier, seed))
    marker = os.path.join(wd, "mem.json")
    if os.path.exists(marker):
        return json.load(open(marker))
    jobs = gen.directed()
    jobs += pb_jobs(kmax=24 if tier == "quick" else 30)
    n = 1200 if tier == "quick" else 12000
    jobs += gen.gen(["rw", "cas", "guards", "multi", "churn", "cache", "drop", "mixed", "aba", "wrap"], n, seed * 31 + 5)
    # the lock-based strategy, single-threaded (its lock is invisible to the happens-before monitor): only to get its sites
    # into the ordering table (spec/WeakRw.tla is fed from it)
    def _n():
        return {"new": {"pd": False}}
    rwp = {"threads": [[{"op": "new", "c": 0, "v": _n()}],
                       [{"op": "wait", "t": 0}, {"op": "load", "c": 0, "g": 1}, {"op": "deref_g", "g": 1}, {"op": "drop_g", "g": 1},
                        {"op": "store", "c": 0, "v": _n()}, {"op": "load_full", "c": 0, "h": 1},
                        {"op": "cas", "c": 0, "cur": {"h": 1}, "v": _n(), "g": 2}, {"op": "drop_g", "g": 2}, {"op": "drop_h", "h": 1}]],
           "strategy": "rwlock", "reuse": "never"}
    jobs.append({"fam": "rwlock-sites", "prog": rwp, "sched": {"kind": "random", "seed": 1}})
    for i, j in enumerate(jobs):
        j["id"] = i
    t0 = time.time()
    res = P.run_and_validate(jobs, "mem", wd, atomics="all", specs=("Trace_Mem",))
    viols = []
    per_key = {}
    for v in res["viols"]:
        job = jobs[v["id"]]
        v["fam"] = job.get("fam")
        v["ctx"] = ""
        v["key"] = P.viol_key(v)
        per_key[v["key"]] = per_key.get(v["key"], 0) + 1
        if per_key[v["key"]] <= 3:
            v["replay"] = P.write_replay(v, job)
        viols.append({k: v[k] for k in ("id", "prop", "why", "spec", "ev", "fam", "key", "replay") if k in v})
    # measured: distinct executions, and those in which a value allocated by one thread is dereferenced by another
    import hashlib
    seen, cross = set(), 0
    for pth in res["files"]:
        cur, alloc_by, is_cross = [], {}, False
        for line in open(pth):
            if line.startswith('{"e":"begin"'):
                cur, alloc_by, is_cross = [], {}, False
            elif line.startswith('{"e":"end"'):
                k = hashlib.md5("".join(cur).encode()).hexdigest()
                if k not in seen:
                    seen.add(k)
                    cross += is_cross
            elif '"e":"at"' not in line:
                cur.append(line)
                if '"e":"alloc"' in line:
                    e = json.loads(line)
                    alloc_by[e["o"]] = e["t"]
                elif '"e":"deref"' in line:
                    e = json.loads(line)
                    if e["o"] in alloc_by and alloc_by[e["o"]] != e["t"]:
                        is_cross = True
    # ordering table extracted from the code by the trace specification
    ords = P.collect_ords(res["files"], wd)
    design = json.load(open(os.path.join(P.SPEC, "Ord_design.json"))) if os.path.exists(os.path.join(P.SPEC, "Ord_design.json")) else {}
    diff = {k: [design.get(k), v] for k, v in ords.items() if design.get(k) != v}
    out = {"viols": viols, "traces": res["execs"], "ord_table": ords,
           "coverage": {"evaluations": res["execs"], "distinct_nontrivial": cross, "distinct_executions": len(seen),
                        "rule": "executions of the real crate with all atomic accesses logged, validated by TLC against spec/Trace_Mem.tla; distinct by hash of the event sequence; non-trivial = a value allocated by one thread is dereferenced by another thread",
                        "mem_events_validated": res["events"], "ord_table_sites": len(ords), "ord_table_diff": diff,
                        "mem_wall_s": round(time.time() - t0, 1)},
           "samples": [{"ordering_table_sample": dict(list(ords.items())[:6])}]}
    with open(marker, "w") as f:
        json.dump(out, f)
    return out


EXTRA["C07"] = mem_stage
EXTRA["C11"] = mem_stage
PROPS["C07"] = {"level": "exploration", "conc": False, "assumptions": [
    "happens-before is computed by the Mem specification (release/acquire, release sequences, fences; SeqCst = AcqRel on an interleaving) from the orderings the code actually requested, logged by the shim",
    "the instrumented pointer type follows Arc: increment Relaxed, decrement Release, Acquire fence at zero",
    "executions are interleavings: races that need a stale (non-latest) read are outside this monitor (DESIGN section 4)"]}
NONTRIVIAL["C07"] = ("distinct executions in which a value allocated by one thread is dereferenced by another", lambda evs: True)


# ------------------------------------------------------------------ C14: all strategies, one sequential specification
def seq_programs(tier, seed, wd, P):
    """Programs enumerated by TLC from spec/SeqGen.tla (exhaustive to a depth, then random deeper ones)."""
    import os, re, json, subprocess, random
    progs = []
    stats = {}

    def run(maxlen, simulate=None, nc=1, cache="TRUE"):
        cfg = os.path.join(P.SPEC, "SeqGen_run_%d_%d.cfg" % (maxlen, nc))
        with open(cfg, "w") as f:
            f.write("SPECIFICATION Spec\nCONSTANTS MaxLen = %d  NC = %d  NG = 2  NH = 2  WithCache = %s\nINVARIANT PrintProgram\nCHECK_DEADLOCK FALSE\n" % (maxlen, nc, cache))
        extra = ["-simulate", "num=%d" % simulate, "-depth", str(maxlen + nc + 1), "-seed", str(seed + 7)] if simulate else []
        rc, out, wall = P.tlc("SeqGen.tla", os.path.basename(cfg), wd, workers=4, timeout=1200, extra=extra, heap="4g")
        os.remove(cfg)
        res = []
        for m in re.finditer(r'<<"PROG", "(.*?)">>', out.replace("\n", "")):
            res.append(json.loads(m.group(1).replace('\\"', '"')))
        if not res:
            raise P.ToolError("SeqGen produced no programs:\n" + out[-1500:])
        st, tr = P.mc_stats(out)
        return res, st, tr
    p2, s2, t2 = run(2)
    stats["len2_exhaustive"] = len(p2)
    progs += p2
    p3, s3, t3 = run(3)
    stats["len3_enumerated"] = len(p3)
    rng = random.Random(seed)
    if tier == "quick":
        rng.shuffle(p3)
        p3 = p3[:2500]
    stats["len3_used"] = len(p3)
    progs += p3
    def sample(ps, n):
        uniq = list({json.dumps(p, sort_keys=True): p for p in ps}.values())
        rng.shuffle(uniq)
        return uniq[:n]
    p6, s6, t6 = run(6, simulate=(100 if tier == "quick" else 1000))
    p6 = sample(p6, 1500 if tier == "quick" else 20000)
    stats["len6_random"] = len(p6)
    progs += p6
    pc, sc, tc = run(4, simulate=(100 if tier == "quick" else 1000), nc=2, cache="FALSE")
    pc = sample(pc, 600 if tier == "quick" else 8000)
    stats["len4_two_containers_random"] = len(pc)
    progs += pc
    stats["states"] = s2 + s3
    stats["transitions"] = t2 + t3
    return progs, stats


def slot_programs():
    """Sequential programs around the re-use of a borrow slot (C14/C02/C10): a guard whose debt was paid by a write, its slot taken by
    a younger guard (after j intermediate loads that rotate the slot search, or because 7 guards on another container leave one slot),
    then every way of ending the old guard, then another write."""
    def new():
        return {"new": {"pd": False}}
    progs = []
    for pad, init in [(p_, "value") for p_ in (None, 1, 2)] + [(None, "null"), (1, "null")]:
        for j in range(0, 10) if pad is None else (0, 1):
            for write in ("store", "swap", "cas"):
                for end in ("into_inner", "drop_g", "keep"):
                    # init = "null": the old guard is a guard on None (its debt is the null pointer, paid by whoever replaces a None)
                    ops = [{"op": "new", "c": 0, "v": new() if init == "value" else "null"}, {"op": "new", "c": 1, "v": new()}]
                    if pad is not None:
                        ops.append({"op": "pad", "c": 1, "free": pad, "base": 300})
                    ops.append({"op": "load", "c": 0, "g": 1})
                    if write == "store":
                        ops.append({"op": "store", "c": 0, "v": new()})
                    elif write == "swap":
                        ops += [{"op": "swap", "c": 0, "v": new(), "h": 9}, {"op": "drop_h", "h": 9}]
                    else:
                        ops += [{"op": "cas", "c": 0, "cur": {"gref": 1}, "v": new(), "g": 8}, {"op": "drop_g", "g": 8}]
                    for _ in range(j):
                        ops += [{"op": "load", "c": 0, "g": 2}, {"op": "drop_g", "g": 2}]
                    ops.append({"op": "load", "c": 0, "g": 3})
                    if end == "into_inner":
                        ops += [{"op": "into_inner", "g": 1, "h": 1}]
                    elif end == "drop_g":
                        ops += [{"op": "drop_g", "g": 1}]
                    ops += [{"op": "store", "c": 0, "v": new()}, {"op": "deref_g", "g": 3}, {"op": "drop_g", "g": 3}]
                    if end == "into_inner":
                        ops += [{"op": "deref_h", "h": 1}, {"op": "drop_h", "h": 1}]
                    elif end == "keep":
                        ops += [{"op": "deref_g", "g": 1}, {"op": "drop_g", "g": 1}]
                    progs.append(ops)
    # guards that outlive their container (C10), the container dropped normally or by the unwinding of a panic in its owner
    for k in (1, 3, 9, 12):
        for unwinding in (False, True):
            for full in (False, True):
                ops = [{"op": "new", "c": 0, "v": new()}, {"op": "new", "c": 1, "v": new()}]
                for i in range(k):
                    ops.append({"op": "load", "c": 0, "g": 10 + i})
                if full:
                    ops.append({"op": "load_full", "c": 0, "h": 5})
                ops.append({"op": "drop_c", "c": 0, "unwinding": unwinding})
                for i in range(k):
                    ops += [{"op": "deref_g", "g": 10 + i}, {"op": "drop_g", "g": 10 + i}]
                if full:
                    ops += [{"op": "deref_h", "h": 5}, {"op": "drop_h", "h": 5}]
                progs.append(ops)
    return progs


def seq_stage(tier, seed, key, P):
    import json, os, time
    wd = os.path.join(P.CACHE, "%s-%s-%d-seq" % (key, tier, seed))
    marker = os.path.join(wd, "seq.json")
    if os.path.exists(marker):
        return json.load(open(marker))
    os.makedirs(wd, exist_ok=True)
    t0 = time.time()
    progs, stats = seq_programs(tier, seed, wd, P)
    sp = slot_programs()
    stats["slot_reuse_programs"] = len(sp)
    progs = progs + sp
    jobs = []
    for i, ops in enumerate(progs):
        for strat in ("default", "nofast", "rwlock"):
            jobs.append({"id": len(jobs), "fam": "seq", "pi": i, "strategy": strat,
                         "prog": {"threads": [ops], "strategy": strat, "reuse": "never"}, "sched": {"kind": "random", "seed": 1}})
    res = P.run_and_validate(jobs, "seq", wd, atomics="st", specs=("Trace_Abs",))
    viols = []
    for v in res["viols"]:
        job = jobs[v["id"]]
        v["fam"] = "seq/" + job["strategy"]
        v["ctx"] = "strategy=" + job["strategy"]
        v["why"] = "[%s strategy, sequential program] %s" % (job["strategy"], v["why"])
        v["prop"] = "C14+" + v["prop"]
        v["key"] = P.viol_key(v)
        v["replay"] = P.write_replay(v, job)
        viols.append({k: v[k] for k in ("id", "prop", "why", "spec", "ev", "fam", "key", "replay") if k in v})
        if len(viols) > 20:
            break
    # identical identities under every strategy: compare the (op, returned value) sequences
    rets = {}
    for p in res["files"]:
        cur = None
        for line in open(p):
            if line.startswith('{"e":"begin"'):
                cur = json.loads(line)["id"]
                rets[cur] = []
            elif line.startswith('{"c":') and '"e":"ret"' in line:
                e = json.loads(line)
                rets[cur].append((e["op"], e["v"]))
    mism = 0
    for i in range(len(progs)):
        a, b, c = rets.get(3 * i), rets.get(3 * i + 1), rets.get(3 * i + 2)
        if not (a == b == c):
            mism += 1
            if mism <= 3:
                v = {"id": 3 * i, "prop": "C14", "why": "the strategies return different identities for the same sequential program",
                     "spec": "cross-strategy", "ev": {"default": a, "nofast": b, "rwlock": c}, "fam": "seq", "file": res["files"][0]}
                v["key"] = "C14/strategies-disagree"
                viols.append({k: v[k] for k in ("id", "prop", "why", "spec", "ev", "fam", "key")})
    out = {"viols": viols, "traces": res["execs"],
           "coverage": {"seq_programs": stats, "seq_events_validated": res["events"], "seq_wall_s": round(time.time() - t0, 1),
                        "states": stats["states"], "transitions": stats["transitions"], "cross_strategy_mismatches": mism},
           "samples": [{"program": progs[len(progs) // 2]}]}
    with open(marker, "w") as f:
        json.dump(out, f)
    return out


EXTRA["C14"] = seq_stage
PROPS["C14"] = {"level": "model_checking", "conc": False, "assumptions": [
    "programs are enumerated by TLC from spec/SeqGen.tla: all programs of length <= 2 (quick: + 2500 of the 29750 of length 3; thorough: all), random ones of length 6 and with 2 containers",
    "oracle: ArcSwapAbs via Trace_Abs (in a sequential run every returned identity and every count is pinned) + equality of the returned identities across DefaultStrategy, the fallback-only strategy and RwLock<()>",
    "values are the instrumented pointer type wrapped in Option (null included)"]}
NONTRIVIAL["C14"] = ("distinct sequential programs x strategies", lambda evs: True)


# ------------------------------------------------------------------ C15 / C19 / C20: TLC enumerates, the real types answer
def _tlc_lines(P, spec, cfg_text, tag, wd, extra=(), workers=4):
    """run TLC on spec with the given cfg text, return (list of decoded JSON payloads printed as <<tag, json>>, states, transitions)"""
    import os, re, json
    cfg = os.path.join(P.SPEC, "_run_%s_%d.cfg" % (tag, os.getpid()))
    with open(cfg, "w") as f:
        f.write(cfg_text)
    try:
        rc, out, wall = P.tlc(spec, os.path.basename(cfg), wd, workers=workers, timeout=1200, extra=list(extra), heap="4g")
    finally:
        os.remove(cfg)
    if "No error has been found" not in out and "-simulate" not in " ".join(extra):
        raise P.ToolError("TLC failed on %s:\n%s" % (spec, out[-2000:]))
    res = []
    for m in re.finditer(r'<<"%s", "(.*?)">>' % tag, out.replace("\n", "")):
        res.append(json.loads(json.loads('"' + m.group(1) + '"')))
    st, tr = P.mc_stats(out)
    return res, st, tr


def laws_stage(tier, seed, key, P):
    import json, os, subprocess, time
    wd = os.path.join(P.CACHE, "%s-%s-laws" % (key, tier))
    marker = os.path.join(wd, "laws.json")
    if os.path.exists(marker):
        return json.load(open(marker))
    os.makedirs(wd, exist_ok=True)
    t0 = time.time()
    maxlen = 4 if tier == "quick" else 5
    progs, states, trans = [], 0, 0
    combos = [("strong", w, x, i) for w in (0, 1) for x in (1, 2) for i in ('<<"p">>', '<<"e">>', '<<"p", "p">>', '<<"p", "e">>')]
    combos += [("weak", 1, 1, i) for i in ('<<"p">>', '<<"e">>', '<<"p", "e">>')] + [("weak", 1, 2, '<<"p">>')]
    for kind, wit, xw, init in combos:
        cfg = ("SPECIFICATION Spec\nCONSTANTS Kind = \"%s\"  MaxLen = %d  Witness = %d  ExtraWeak = %d  InitH <- InitConst\n"
               "INVARIANTS Sane PrintProgram\nCHECK_DEADLOCK FALSE\n" % (kind, maxlen, wit, xw))
        mc = os.path.join(P.SPEC, "MC_Laws.tla")
        with open(mc, "w") as f:
            f.write("---- MODULE MC_Laws ----\nEXTENDS RefCntLaws\nInitConst == %s\n====\n" % init)
        r, st, tr = _tlc_lines(P, "MC_Laws.tla", cfg, "LAW", wd)
        progs += r
        states += st
        trans += tr
    os.remove(os.path.join(P.SPEC, "MC_Laws.tla"))
    path = os.path.join(wd, "laws.ndjson")
    with open(path, "w") as f:
        for p in progs:
            f.write(json.dumps(p) + "\n")
    r = subprocess.run([P.ASV, "seq", "laws", path], stdout=subprocess.PIPE, stderr=subprocess.PIPE, text=True, timeout=3000)
    if r.returncode != 0:
        raise P.ToolError("asv seq laws failed: " + r.stderr[-1000:])
    res = json.loads(r.stdout.strip().splitlines()[-1])
    viols = []
    for fl in res["failures"][:5]:
        os.makedirs(P.REPLAYS, exist_ok=True)
        rp = os.path.join(P.REPLAYS, "C15-%s.json" % P.hashlib.sha256(json.dumps(fl, sort_keys=True).encode()).hexdigest()[:12])
        json.dump(fl, open(rp, "w"))
        viols.append({"id": 0, "prop": "C15", "why": fl["why"], "spec": "RefCntLaws", "ev": {}, "fam": "laws", "key": "C15/" + fl["why"][:60], "replay": rp})
    if res.get("zst_collisions", 0):
        viols.append({"id": 0, "prop": "C15", "why": "distinct zero-sized values share an address or collide with the empty-slot marker", "spec": "RefCntLaws", "ev": {}, "fam": "laws", "key": "C15/zst"})
    out = {"viols": viols, "traces": res["runs"],
           "coverage": {"states": states, "transitions": trans, "law_programs": res["programs"], "law_program_runs": res["runs"],
                        "law_steps_checked": res["steps"], "max_len": maxlen, "configurations": len(combos),
                        "pointee_layouts": ["usize", "zero-sized", "align(64)", "String"], "laws_wall_s": round(time.time() - t0, 1)},
           "samples": [progs[len(progs) // 3]] if progs else []}
    json.dump(out, open(marker, "w"))
    return out


def traits_stage(tier, seed, key, P):
    import json, os, subprocess
    wd = os.path.join(P.CACHE, "%s-traits" % key)
    os.makedirs(wd, exist_ok=True)
    want, st, tr = _tlc_lines(P, "AutoTraits.tla", "SPECIFICATION Spec\nINVARIANT Emit\n", "TRAIT", wd, workers=1)
    r = subprocess.run([P.ASV, "seq", "autotraits"], stdout=subprocess.PIPE, stderr=subprocess.PIPE, text=True, timeout=600)
    if r.returncode != 0:
        raise P.ToolError("asv seq autotraits failed: " + r.stderr[-1000:])
    got = {(x["wrapper"], x["ptr"], x["pointee"], x["strategy"]): x for x in json.loads(r.stdout.strip().splitlines()[-1])["rows"]}
    viols, checked = [], 0
    for w in want:
        k = (w["wrapper"], w["ptr"], w["pointee"], w["strategy"])
        g = got.get(k)
        if g is None:
            raise P.ToolError("no answer from rustc for %s" % (k,))
        checked += 1
        for tr_ in ("send", "sync"):
            unsound = g[tr_] and not w[tr_]
            illiberal = w["exact"] and w[tr_] and not g[tr_]
            if unsound or illiberal:
                why = ("%s<%s<%s>> (%s strategy) is %s although %s" %
                       (w["wrapper"], w["ptr"], w["pointee"], w["strategy"], tr_.capitalize() if g[tr_] else "not " + tr_.capitalize(),
                        "a part of it (the stored pointer, the handle to the container or the projection) must not be " + ("sent" if tr_ == "send" else "shared") if unsound else "all its parts may be"))
                viols.append({"id": 0, "prop": "C19", "why": why, "spec": "AutoTraits", "ev": {"expected": w, "rustc": g}, "fam": "traits", "key": "C19/%s/%s/%s/%s" % (k[0], k[1], k[2], tr_)})
    if viols:
        os.makedirs(P.REPLAYS, exist_ok=True)
        rp = os.path.join(P.REPLAYS, "C19-table.json")
        json.dump(viols, open(rp, "w"))
        for v in viols:
            v["replay"] = rp
    return {"viols": viols[:10], "traces": checked,
            "coverage": {"states": max(1, st), "transitions": max(1, tr), "table_rows": len(want), "rows_checked": checked,
                         "explanation": "TLC evaluates the auto-trait algebra of spec/AutoTraits.tla (440 instantiations: 22 wrapper forms - incl. Rc / Box / Arc / & handles to the container and thread-bound vs. shareable projections - x 5 pointer kinds x 4 pointee classes) and checks its own soundness clause; rustc decides the same 880 questions about the real types; every row must be sound, and exact except for DynGuard"},
            "samples": want[:3]}


def serde_stage(tier, seed, key, P):
    import json, os, subprocess
    wd = os.path.join(P.CACHE, "%s-serde" % key)
    os.makedirs(wd, exist_ok=True)
    shapes, st, tr = _tlc_lines(P, "SerdeShapes.tla", "SPECIFICATION Spec\nINVARIANT Emit\n", "SHAPE", wd, workers=1)
    path = os.path.join(wd, "shapes.ndjson")
    with open(path, "w") as f:
        for s in shapes:
            f.write(json.dumps(s) + "\n")
    r = subprocess.run([P.ASV, "seq", "serde", path], stdout=subprocess.PIPE, stderr=subprocess.PIPE, text=True, timeout=600)
    if r.returncode != 0:
        raise P.ToolError("asv seq serde failed: " + r.stderr[-1000:])
    res = json.loads(r.stdout.strip().splitlines()[-1])
    # histories: earlier failed serializations on the same thread, nested containers (also enumerated by TLC)
    hists, st2, tr2 = _tlc_lines(P, "SerdeShapes.tla", "SPECIFICATION Spec\nINVARIANT EmitH\n", "HIST", wd, workers=1)
    hpath = os.path.join(wd, "hist.ndjson")
    with open(hpath, "w") as f:
        for h in hists:
            f.write(json.dumps(h) + "\n")
    r = subprocess.run([P.ASV, "seq", "serde_hist", hpath], stdout=subprocess.PIPE, stderr=subprocess.PIPE, text=True, timeout=900)
    if r.returncode != 0:
        raise P.ToolError("asv seq serde_hist failed: " + r.stderr[-1000:])
    res2 = json.loads(r.stdout.strip().splitlines()[-1])
    res["failures"] = res["failures"] + res2["failures"]
    res["checks"] += res2["checks"]
    st, tr = st + st2, tr + tr2
    viols = []
    for fl in res["failures"][:5]:
        os.makedirs(P.REPLAYS, exist_ok=True)
        rp = os.path.join(P.REPLAYS, "C20-%s.json" % P.hashlib.sha256(json.dumps(fl, sort_keys=True).encode()).hexdigest()[:12])
        json.dump(fl, open(rp, "w"))
        viols.append({"id": 0, "prop": "C20", "why": "[%s strategy] %s" % (fl["strategy"], fl["why"]), "spec": "SerdeShapes", "ev": {}, "fam": "serde", "key": "C20/" + fl["why"][:50], "replay": rp})
    return {"viols": viols, "traces": res["checks"],
            "coverage": {"evaluations": res["checks"], "distinct_nontrivial": len(shapes) + len(hists), "value_shapes": len(shapes), "histories": len(hists),
                         "rule": "value shapes enumerated by TLC from spec/SerdeShapes.tla (scalars, strings, sequences, nested structures) x {ArcSwap, ArcSwapOption Some/None} x 3 default-constructible strategies; plus histories (1..300 earlier serializations failing with an error / a panic inside the pointee, on the same thread; containers nested 1..150 deep): failures are reported transparently and leave no trace; non-trivial = every shape / history"},
            "samples": shapes[::40]}


def cache_views_stage(tier, seed, key, P):
    """C16, sequential: programs over all ways of looking through a cache (inherent load, the Access trait, a mapped cache, a clone)
    enumerated by TLC from spec/CacheViews.tla with predicted results and strong counts, executed on the real types"""
    import json, os, subprocess
    wd = os.path.join(P.CACHE, "%s-%s-cviews" % (key, tier))
    marker = os.path.join(wd, "cviews.json")
    if os.path.exists(marker):
        return json.load(open(marker))
    os.makedirs(wd, exist_ok=True)
    progs, states, trans = [], 0, 0
    for flavour, n in (("plain", 4 if tier == "quick" else 5), ("option", 4 if tier == "quick" else 5)):
        cfg = "SPECIFICATION Spec\nCONSTANTS MaxLen = %d  Flavour = \"%s\"\nINVARIANTS Sane PrintProgram\nCHECK_DEADLOCK FALSE\n" % (n, flavour)
        r, st, tr = _tlc_lines(P, "CacheViews.tla", cfg, "CVIEW", wd, workers=1)
        progs += r
        states += st
        trans += tr
    path = os.path.join(wd, "cviews.ndjson")
    with open(path, "w") as f:
        for p in progs:
            f.write(json.dumps(p) + "\n")
    r = subprocess.run([P.ASV, "seq", "cache_views", path], stdout=subprocess.PIPE, stderr=subprocess.PIPE, text=True, timeout=1800)
    if r.returncode != 0:
        raise P.ToolError("asv seq cache_views failed: " + r.stderr[-1000:])
    res = json.loads(r.stdout.strip().splitlines()[-1])
    viols = []
    for fl in res["failures"][:5]:
        os.makedirs(P.REPLAYS, exist_ok=True)
        rp = os.path.join(P.REPLAYS, "C16-%s.json" % P.hashlib.sha256(json.dumps(fl, sort_keys=True).encode()).hexdigest()[:12])
        json.dump(fl, open(rp, "w"))
        viols.append({"id": 0, "prop": "C16", "why": fl["why"], "spec": "CacheViews", "ev": {}, "fam": "cache_views", "key": "C16/views/" + fl["why"][:60], "replay": rp})
    out = {"viols": viols, "traces": res["programs"],
           "coverage": {"cache_view_programs": res["programs"], "cache_view_steps": res["steps"], "states": states, "transitions": trans},
           "samples": progs[:1]}
    json.dump(out, open(marker, "w"))
    return out


EXTRA["C15"] = laws_stage
EXTRA["C19"] = traits_stage
EXTRA["C20"] = serde_stage
PROPS["C15"] = {"level": "model_checking", "conc": False, "assumptions": [
    "operation sequences up to length 4 (quick) / 5 (thorough) from 20 initial count states, enumerated exhaustively by TLC from spec/RefCntLaws.tla with the counts the laws predict",
    "executed on Arc, Option<Arc>, Rc, Option<Rc>, sync::Weak, rc::Weak for pointee layouts usize, zero-sized, align(64), String; not a proof of memory safety for layouts not enumerated"]}
PROPS["C19"] = {"level": "other", "conc": False, "assumptions": [
    "rustc is the decision procedure for the auto traits of the real types; the TLA+ module supplies the expected table and its soundness clause"]}
PROPS["C20"] = {"level": "exploration", "conc": True, "assumptions": [
    "relational oracle only: the encoding itself is serde's business; value shapes from spec/SerdeShapes.tla; serde_json as the format"]}
for _p in ("C15", "C19"):
    NONTRIVIAL[_p] = ("see coverage", lambda evs: True)
NONTRIVIAL["C20"] = ("distinct executions in which a container is serialized while another thread writes it", lambda evs: _overlap_write(evs, ("ser",)))


# ------------------------------------------------------------------ weak-memory clauses (C01 / C07): model checking with the
# ordering table EXTRACTED from the real code
def _meet(ords):
    """the weakest common strength of a set of orderings (acquire part and release part separately)"""
    acq = all(o in ("acq", "ar", "sc") for o in ords)
    rel = all(o in ("rel", "ar", "sc") for o in ords)
    sc = all(o == "sc" for o in ords)
    return "sc" if sc else "acqrel" if acq and rel else "acq" if acq else "rel" if rel else "rlx"


def _enclosing_fn(rel, line):
    """name of the fn of the crate source file that contains the line (the code under test is read, not executed)"""
    import os, re
    repo = os.environ.get("VERIF_REPO", "/repo")
    try:
        src = open(os.path.join(repo, rel)).read().splitlines()
    except OSError:
        return "?"
    for i in range(min(line, len(src)) - 1, -1, -1):
        m = re.match(r"\s*(?:pub(?:\([a-z]+\))?\s+)?(?:unsafe\s+)?fn\s+(\w+)", src[i])
        if m:
            return m.group(1)
    return "?"


def weak_constants(table):
    """table: {'file:line role kind': [ord, fail_ord]} -> (constants for WeakFast, constants for WeakHelp) or a reason why not"""
    rows = []
    for k, v in table.items():
        loc, role, kind = k.split(" ")
        f, line = loc.split(":")
        rows.append((f, int(line), role, kind, v[0], v[1]))

    def sel(f, role, kind):
        return sorted([r for r in rows if r[0] == f and r[2] == role and r[3] == kind], key=lambda r: r[1])
    stl = sel("hybrid.rs", "st", "load")
    if len(stl) != 3:
        return None, "expected 3 loads of the storage in hybrid.rs, found %d" % len(stl)
    swaps = sel("lib.rs", "st", "swap") + sel("hybrid.rs", "st", "casw")
    # the publication of a debt in a fast slot: a swap in 1.7.1; a plain store would do the same job (with its own ordering)
    slot = sel("fast.rs", "fast", "swap") + sel("fast.rs", "fast", "store")
    pay = sel("mod.rs", "fast", "cas") + sel("mod.rs", "hslot", "cas")
    if not swaps or not slot or not pay:
        return None, "storage swap / slot swap / pay sites not found"
    fences = [r for r in rows if r[0] == "hybrid.rs" and r[3] == "fence"]
    # the writer's walk over the slots (pay_all) has its own compare-exchange since fix F8; the sites are told apart
    # by the function of debt/mod.rs that encloses the logged line (`pay` = the holder of a debt gives it back itself)
    own = [r for r in pay if _enclosing_fn("src/debt/mod.rs", r[1]) == "pay"]
    walk = [r for r in pay if r not in own] or own
    own = own or walk
    pay_ok = _meet([r[4] for r in own])
    pay_fail = _meet([r[5] for r in own])
    payw_ok = _meet([r[4] for r in walk])
    payw_fail = _meet([r[5] for r in walk])
    r4 = "acq" if any(r[4] in ("acq", "ar", "sc") for r in fences) else pay_fail
    fast = {"OrdFirst": _meet([stl[0][4]]), "OrdConfirm": _meet([stl[1][4]]), "OrdSlotSwap": _meet([r[4] for r in slot]),
            "OrdStSwap": _meet([r[4] for r in swaps]), "OrdPayOk": pay_ok, "OrdPayFail": pay_fail, "OrdPayOkW": payw_ok, "OrdPayFailW": payw_fail, "OrdPayFailR4": r4}
    ctrl = sel("helping.rs", "ctrl", "swap") + sel("helping.rs", "ctrl", "cas")
    hs = sel("helping.rs", "hslot", "swap") + sel("helping.rs", "hslot", "store")
    env = sel("helping.rs", "env", "load") + sel("helping.rs", "env", "store") + sel("helping.rs", "space", "store")
    hl = sel("helping.rs", "ctrl", "load") + sel("helping.rs", "space", "load")
    if len(ctrl) < 3 or not hs or not env or not hl:
        return (fast, None, _node_constants(sel), _rw_constants(sel, fast)), "helping sites not all observed (%d control accesses, %d slot swaps, %d envelope accesses, %d helper loads)" % (len(ctrl), len(hs), len(env), len(hl))
    cords = [r[4] for r in ctrl] + [r[5] for r in ctrl if r[3] == "cas"]
    helpc = {"OrdCand": _meet([stl[2][4]]), "OrdCtrl": _meet(cords), "OrdHslot": _meet([r[4] for r in hs]), "OrdEnv": _meet([r[4] for r in env]),
             "OrdStSwap": fast["OrdStSwap"], "OrdPayOk": pay_ok, "OrdPayFail": pay_fail, "OrdPayOkW": payw_ok, "OrdPayFailW": payw_fail, "OrdHelpLoad": _meet([r[4] for r in hl])}
    return (fast, helpc, _node_constants(sel), _rw_constants(sel, fast)), ""


def _rw_constants(sel, fast):
    """constants of spec/WeakRw.tla (the lock-based strategy): the pointer load under the read lock, the pointer swap of lib.rs"""
    ld = sel("rw_lock.rs", "st", "load")
    if not ld:
        return None
    return {"OrdStSwap": fast["OrdStSwap"], "OrdRwLoad": _meet([r[4] for r in ld])}


def _node_constants(sel):
    """constants of spec/WeakNode.tla (hand-over of a debt node between threads) from the sites of debt/list.rs and debt/fast.rs"""
    cool = sel("list.rs", "inuse", "swap")
    cload = sel("list.rs", "inuse", "load")
    wl, wa, ws = sel("list.rs", "wr", "load"), sel("list.rs", "wr", "add"), sel("list.rs", "wr", "sub")
    cas = sel("list.rs", "inuse", "cas")
    unc = [r for r in cas if _enclosing_fn("src/debt/list.rs", r[1]) == "check_cooldown"]
    claim = [r for r in cas if r not in unc]
    probe, sw = sel("fast.rs", "fast", "load"), sel("fast.rs", "fast", "swap") + sel("fast.rs", "fast", "store")
    if not (cool and cload and wl and wa and ws and unc and claim and probe and sw):
        return None
    return {"OrdSlotSwap": _meet([r[4] for r in sw]), "OrdProbe": _meet([r[4] for r in probe]), "OrdCool": _meet([r[4] for r in cool]),
            "OrdCoolLoad": _meet([r[4] for r in cload]), "OrdWrLoad": _meet([r[4] for r in wl]), "OrdWrAdd": _meet([r[4] for r in wa]),
            "OrdWrSub": _meet([r[4] for r in ws]), "OrdUncoolOk": _meet([r[4] for r in unc]), "OrdUncoolFail": _meet([r[5] for r in unc]),
            "OrdClaimOk": _meet([r[4] for r in claim]), "OrdClaimFail": _meet([r[5] for r in claim])}


def weak_stage(tier, seed, key, P):
    import json, os, re
    mem = mem_stage(tier, seed, key, P)
    wd = os.path.join(P.CACHE, "%s-%s-%d-mem" % (key, tier, seed))
    marker = os.path.join(wd, "weak.json")
    if os.path.exists(marker):
        return json.load(open(marker))
    table = mem.get("ord_table", {})
    consts, why = weak_constants(table)
    out = {"viols": [], "traces": 0, "coverage": {"weak_model": {"mapped": consts is not None, "note": why}}, "samples": []}
    states = trans = 0
    runs = []
    if consts is not None:
        for spec, cs, nsw in (("WeakFast.tla", consts[0], 3), ("WeakHelp.tla", consts[1], 2), ("WeakNode.tla", consts[2] if len(consts) > 2 else None, 0), ("WeakRw.tla", consts[3] if len(consts) > 3 else None, 0)):
            if cs is None:
                continue
            # two runs per model: a use after free found first must not hide a race (different properties), and vice versa
            for inv in ("SafeUaf", "SafeRace"):
                if inv == "SafeRace" and spec == "WeakNode.tla":
                    continue
                cfg = "SPECIFICATION Spec\nCONSTANTS StrictSC = TRUE\n" + (" NSwaps = %d\n" % nsw if nsw else "") + "".join(' %s = "%s"\n' % kv for kv in cs.items()) + "INVARIANT %s\nCHECK_DEADLOCK FALSE\n" % inv
                name = os.path.join(P.SPEC, "_weak_%d.cfg" % os.getpid())
                open(name, "w").write(cfg)
                try:
                    rc, o, wall = P.tlc(spec, os.path.basename(name), wd, workers=4, timeout=1500, heap="8g")
                finally:
                    os.remove(name)
                st, tr = P.mc_stats(o)
                states += st
                trans += tr
                ok = "No error has been found" in o
                runs.append({"spec": spec, "invariant": inv, "constants": cs, "states": st, "ok": ok, "wall": round(wall, 1)})
                if ok:
                    continue
                if "Invariant %s is violated" % inv not in o:
                    raise P.ToolError("weak-memory model checking failed:\n" + o[-1500:])
                errs = re.findall(r'err = "([\w-]+)"', o)
                kind = [e for e in errs if e != "ok"][-1] if errs else "?"
                prop = "C01+C10" if kind == "debt-overwritten" else "C01" if kind.startswith("uaf") else "C07"
                os.makedirs(P.REPLAYS, exist_ok=True)
                rp = os.path.join(P.REPLAYS, "%s-weak-%s.json" % (prop.replace("+", "_"), P.hashlib.sha256(json.dumps(cs, sort_keys=True).encode()).hexdigest()[:10]))
                json.dump({"kind": "weak-model", "spec": spec, "constants": cs, "nswaps": nsw, "error": kind, "ordering_table": table,
                           "counterexample": o[-20000:]}, open(rp, "w"))
                text = {"C01": "a value is used after destruction in an execution permitted by the orderings the code requests (%s)" % kind,
                        "C01+C10": "the debt of a live guard is overwritten by the thread that re-claims its node, in an execution permitted by the orderings the code requests (%s): the guard loses its protection" % kind,
                        "C07": "a data race on the pointee is permitted by the orderings the code requests (%s)" % kind}[prop]
                out["viols"].append({"id": 0, "prop": prop, "why": text + " [TLC counterexample of %s under the ordering table extracted from the code]" % spec,
                                     "spec": spec, "ev": {"constants": cs}, "fam": "weak-model", "key": "%s/weak/%s/%s" % (prop, spec, kind), "replay": rp})
    out["coverage"]["weak_model"]["runs"] = runs
    out["coverage"]["states"] = states
    out["coverage"]["transitions"] = trans
    json.dump(out, open(marker, "w"))
    return out


def c07_stage(tier, seed, key, P):
    a = mem_stage(tier, seed, key, P)
    b = weak_stage(tier, seed, key, P)
    cov = dict(a["coverage"])
    cov.update(b["coverage"])
    return {"viols": a["viols"] + b["viols"], "traces": a["traces"], "coverage": cov, "samples": a.get("samples", [])}


def c01_extra(tier, seed, key, P):
    b = weak_stage(tier, seed, key, P)
    return {"viols": b["viols"], "traces": 0, "coverage": {"weak_model": b["coverage"]["weak_model"]}, "samples": []}


EXTRA["C07"] = c07_stage
EXTRA["C01"] = c01_extra
EXTRA["C10"] = c01_extra
PROPS["C07"]["level"] = "model_checking"
PROPS["C07"]["assumptions"] = PROPS["C07"]["assumptions"] + [
    "weak-memory clause: spec/WeakFast.tla and WeakHelp.tla (view-based, stale reads, SeqCst in the ISO C++20 reading: StrictSC = TRUE, DESIGN section 4) are model-checked with the ordering table extracted from the real code; a counterexample there is reported although it cannot be executed on this hardware (found F7, F8)"]


# sequential programs also decide the sequential face of these properties
for _p in ("C02", "C04", "C05", "C06", "C10", "C16"):
    EXTRA[_p] = ([EXTRA[_p]] if _p in EXTRA and not isinstance(EXTRA[_p], list) else EXTRA.get(_p, [])) + [seq_stage]
EXTRA["C16"] = EXTRA["C16"] + [cache_views_stage]

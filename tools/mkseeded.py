#!/usr/bin/env python3
"""Write seeded/<id>/meta.json from the sub-agent's meta, the confirmation log and the detection log; print the DESIGN table."""
import json, os, re, sys
V = os.path.dirname(os.path.dirname(os.path.abspath(__file__)))
S = os.path.join(V, "seeded")
rows = []
for d in sorted(os.listdir(S)):
    p = os.path.join(S, d)
    if not os.path.isdir(p):
        continue
    am = {}
    if os.path.exists(os.path.join(p, "agent_meta.json")):
        try:
            am = json.load(open(os.path.join(p, "agent_meta.json")))
        except Exception:
            am = {}
    det = open(os.path.join(p, "detection.txt")).read() if os.path.exists(os.path.join(p, "detection.txt")) else ""
    conf = open(os.path.join(p, "confirm.txt")).read() if os.path.exists(os.path.join(p, "confirm.txt")) else ""
    caught = sorted(set(re.findall(r"VIOLATION property=(C\d+)", det)))
    missed = sorted(set(re.findall(r"^OK property=(C\d+)", det, re.M)) - set(caught))
    why = sorted(set(m.strip()[:110] for m in re.findall(r"VIOLATION property=C\d+ replay=\S+\s+# (.*)", det)))
    meta = {
        "breaks_property": am.get("property", ""),
        "summary": am.get("summary", ""),
        "needs_to_manifest": am.get("needs", ""),
        "files_changed": am.get("files_changed", []),
        "origin": "independent sub-agent given only the property text and a scratch worktree" if am else "hand-written control",
        "confirmed_by_me": {
            "suite_passes_with_change": "suite with change: PASS" in conf,
            "demo_fails_with_change": "FAILS as required" in conf,
            "demo_passes_without_change": "PASSES as required" in conf,
            "log": "confirm.txt" if conf else "(not re-run: see agent_meta.json / demo/README.txt)",
        },
        "what_i_ran": ["tools/confirm_seeded.sh %s  (scratch worktree: crate test suite with the change; demonstration with and without it)" % d,
                       "tools/sweep_copy.sh (private copies of /repo and /verif; quick tier, VERIF_SEED=0): detection.txt"],
        "detected_by_quick_checks": caught,
        "not_detected_by": missed,
        "violations_reported": why,
    }
    json.dump(meta, open(os.path.join(p, "meta.json"), "w"), indent=1)
    rows.append((d, meta))
print("| seeded | breaks | change (one line) | caught by (quick) | clause |")
print("|---|---|---|---|---|")
for d, m in rows:
    print("| %s | %s | %s | %s | %s |" % (d, m["breaks_property"], (m["summary"] or "").replace("|", "/")[:150], ", ".join(m["detected_by_quick_checks"]) or "MISSED", "; ".join(m["violations_reported"])[:120]))

#!/usr/bin/env python3
"""showx.py trace.ndjson X [--at]: print the events of execution number X (1-based as in Trace_Abs)."""
import json, sys
tr, x = sys.argv[1], int(sys.argv[2])
n = 0
for ln, line in enumerate(open(tr), 1):
    e = json.loads(line)
    if e["e"] == "begin":
        n += 1
    if n == x:
        if e["e"] == "at" and "--at" not in sys.argv:
            continue
        print(ln, json.dumps(e, sort_keys=True))
    if n > x:
        break

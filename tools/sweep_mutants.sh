#!/bin/sh
# sweep_mutants.sh id:PROP[,PROP] ... : apply each seeded patch to /repo in turn, run the quick checks, record the outcome
cd /verif
for m in "$@"; do
  id=${m%%:*}; props=$(echo ${m##*:} | tr ',' ' ')
  out=seeded/$id/detection.txt
  echo "# $(date -u +%FT%TZ) quick checks against seeded/$id/patch.diff (VERIF_SEED=${VERIF_SEED:-0})" > $out
  cd /repo && git diff --quiet || { echo "/repo not clean" >> /verif/$out; exit 2; }
  git apply /verif/seeded/$id/patch.diff || { echo "patch does not apply" >> /verif/$out; cd /verif; continue; }
  cd /verif
  for p in $props; do
    ./check $p 2>&1 | grep -E "^(VIOLATION|OK|KNOWN-FINDING|TOOL-ERROR)" | cut -c1-260 >> $out
  done
  cd /repo && git checkout -- . ; cd /verif
  echo "== $id"; cat $out
done

"""spec -> impl: behaviours of ArcSwapImpl (TLC simulation mode, history variable) turned into site-directed
schedules for the real crate.

Each model action is mapped to the signature of the real access it stands for ("role.node.index.kind", "inc",
"dec", "inv"); a behaviour becomes a list of segments "thread t runs until it is about to perform signature S
for the n-th time".  A subset of behaviours is selected greedily so that every label and every observed
context switch (pending label of the preempted thread, label executed next) is covered.
"""
import json
import os
import re
import subprocess

V = os.path.dirname(os.path.dirname(os.path.abspath(__file__)))
SPEC = os.path.join(V, "spec")

# (name, program operator, threads, NF, extra constants, real strategy)
CONFIGS = [
    ("cov_a_nf0", "P_cov_a", "{1, 2, 3}", 0, {"UseFast": "FALSE"}, "nofast"),
    ("cov_c", "P_cov_c", "{1, 2, 3}", 8, {"MaxObj": 6, "NAddr": 5, "MaxSpur": 0}, "default"),
    ("cov_d_nf0", "P_cov_d", "{1, 2}", 0, {"MaxObj": 5, "UseFast": "FALSE"}, "nofast"),
    ("cov_a", "P_cov_a", "{1, 2, 3}", 8, {}, "default"),
    ("cov_e", "P_cov_e", "{1, 2}", 8, {"MaxObj": 4}, "default"),
]

PROGS = {
    "P_cov_a": {1: ["ld", "dg", "ld", "dg"], 2: ["st"], 3: ["st"]},
    "P_cov_c": {1: ["rcu", "dh"], 2: ["st"], 3: ["ld", "dg"]},
    "P_cov_d": {1: ["lf", "dh", "lf", "dh"], 2: ["sw", "dh", "st"]},
    "P_cov_e": {1: ["cn", "cl", "cl", "cd"], 2: ["st", "st"]},
}

SILENT = None


def sig(e):
    """signature of the real access a model action performs (None: no shared access)"""
    t, pc, node, m, c, slot, hps, ri, rn, scan, kind, wl, opk = e
    n, mm, cc = node - 1, m - 1, c - 1

    def slotsig(nn, i):
        if i == -1:
            return "hslot.%d.0.cas" % nn
        if i > 0:
            return "fast.%d.%d.cas" % (nn, i - 1)
        return SILENT
    T = {
        "idle": "inv" if opk not in ("exit", "setgen", "none") else SILENT,
        "L_first": "st.%d.0.load" % cc, "L_probe": "fast.%d.*.load" % n, "L_slot": "fast.%d.%d.swap" % (n, slot - 1),
        "L_confirm": "st.%d.0.load" % cc, "L_pay": "fast.%d.%d.cas" % (n, slot - 1),
        "F_addr": "addr.%d.0.store" % n, "F_ctrl": "ctrl.%d.0.swap" % n, "F_cand": "st.%d.0.load" % cc,
        "F_hslot": "hslot.%d.0.swap" % n, "F_conf": "ctrl.%d.0.swap" % n, "F_inc": "inc", "F_pay": "hslot.%d.0.cas" % n,
        "F_pay2": "hslot.%d.0.cas" % n, "F_dec": "dec", "F_env": "env.*.0.load", "F_space": "space.%d.0.store" % n,
        "I_start": "inc" if ri != 0 else SILENT, "I_pay": slotsig(rn - 1, ri), "I_dec": "dec",
        "D_pay": slotsig(rn - 1, ri), "D_dec": "dec", "DH_dec": "dec",
        "G_pay": slotsig(rn - 1, ri) if ri != 0 else "dec", "RI_start": "inc" if ri != 0 else SILENT, "RI_pay": slotsig(rn - 1, ri),
        "W_swap": "st.%d.0.swap" % cc, "W_inc": "inc", "P_inc": "inc", "W_head": "head.0.0.load", "W_res": "wr.%d.0.add" % mm,
        "H_ctrl": "ctrl.%d.0.load" % mm, "H_addr": "addr.%d.0.load" % mm, "H_re": "ctrl.%d.0.load" % mm,
        "H_their": "space.%d.0.load" % mm, "H_mine": "space.%d.0.load" % n, "H_envst": "env.*.0.store",
        "H_cas": "ctrl.%d.0.cas" % mm, "H_spacest": "space.%d.0.store" % n, "H_drop": "dec",
        "P_slot": slotsig(mm, hps) if hps != 0 else SILENT, "W_rel": "wr.%d.0.sub" % mm, "W_dec": "dec",
        "W_ret": "dec" if kind == "store" else SILENT,
        "N_head": "head.0.0.load", "N_next": "head.0.0.load" if wl == 0 else SILENT,
        "N_cool": "inuse.%d.0.load" % (scan - 1), "N_wr": "wr.%d.0.load" % (scan - 1),
        "N_uncool": "inuse.%d.0.cas" % (scan - 1), "N_claim": "inuse.%d.0.cas" % (scan - 1),
        "X_res": "wr.%d.0.add" % n, "X_cool": "inuse.%d.0.swap" % n, "X_rel": "wr.%d.0.sub" % n,
        "R_cx": "st.%d.0.casw" % cc, "R_dec": "dec", "R_dropnew": "dec", "X_check": "st.%d.0.load" % cc,
    }
    return T.get(pc, SILENT)


def real_program(pname, strategy):
    ops_of = PROGS[pname]
    threads = [[{"op": "new", "c": 0, "v": {"new": {"pd": False}}}]]
    for t in sorted(ops_of):
        ops = [{"op": "wait", "t": 0}]
        held, handles, ng, nh = [], [], 0, 0
        for k in ops_of[t]:
            if k == "ld":
                g = t * 16 + ng
                ng += 1
                held.append(g)
                ops += [{"op": "load", "c": 0, "g": g}, {"op": "deref_g", "g": g}]
            elif k == "dg" and held:
                ops.append({"op": "drop_g", "g": held.pop(0)})
            elif k in ("lf", "sw", "rcu"):
                h = t * 16 + nh
                nh += 1
                handles.append(h)
                if k == "lf":
                    ops.append({"op": "load_full", "c": 0, "h": h})
                elif k == "sw":
                    ops.append({"op": "swap", "c": 0, "v": {"new": {"pd": False}}, "h": h})
                else:
                    ops.append({"op": "rcu", "c": 0, "h": h})
                ops.append({"op": "deref_h", "h": h})
            elif k == "dh" and handles:
                ops.append({"op": "drop_h", "h": handles.pop(0)})
            elif k == "st":
                ops.append({"op": "store", "c": 0, "v": {"new": {"pd": False}}})
            elif k == "cn":
                ops.append({"op": "cache_new", "x": t, "c": 0})
            elif k == "cl":
                ops.append({"op": "cache_load", "x": t})
            elif k == "cd":
                ops.append({"op": "cache_drop", "x": t})
        threads.append(ops)
    return {"threads": threads, "strategy": strategy, "reuse": "lifo"}


def to_segments(hist):
    """[(thread, stop signature, n)]: thread runs until about to perform the signature for the n-th time"""
    segs = []
    i = 0
    N = len(hist)
    while i < N:
        t = hist[i][0]
        j = i
        while j < N and hist[j][0] == t:
            j += 1
        # t executes hist[i:j]; it stops before its next non-silent action later in the behaviour
        nxt = None
        for k in range(j, N):
            if hist[k][0] == t and sig(hist[k]) is not None:
                nxt = sig(hist[k])
                break
        if nxt is None:
            segs.append([t, "", 1])          # runs to completion
        else:
            executed = [sig(e) for e in hist[i:j]]
            n = 1 + sum(1 for s in executed if s is not None and pat_match(nxt, s))
            # no visible step in this segment and the thread is already parked where it should stop: nothing to do
            if all(s is None for s in executed):
                i = j
                continue
            segs.append([t, nxt, n])
        i = j
    return segs


def pat_match(pat, s):
    if pat == s:
        return True
    a, b = pat.split("."), s.split(".")
    return len(a) == len(b) and all(x == "*" or y == "*" or x == y for x, y in zip(a, b))


def features(hist):
    f = set()
    pending = {}
    last_t = None
    for idx, e in enumerate(hist):
        t, pc = e[0], e[1]
        f.add(("L", pc))
        if last_t is not None and t != last_t:
            # context switch: what the preempted thread will do next, what the new one does now
            nxt = next((x[1] for x in hist[idx:] if x[0] == last_t), "end")
            f.add(("S", nxt, pc))
        last_t = t
    return f


def simulate(name, prog, threads, nf, extra, num, seed, workdir):
    consts = dict(Threads=threads, Conts="{1}", NF=nf, GenMod=4, NAddr=4, MaxNodes=len(PROGS[prog]) + 0, MaxObj=4,
                  WrapMode='"fixed"', MaxSpur=1, SoloOn="FALSE", Bug='""', Hist='"all"', UseFast="TRUE")
    consts.update(extra)
    cfg = os.path.join(SPEC, "MC_%s.cfg" % name)
    with open(cfg, "w") as f:
        f.write("SPECIFICATION Spec\nCONSTANTS\n  Prog <- %s\n" % prog)
        for k, v in consts.items():
            f.write("  %s = %s\n" % (k, v))
        f.write("INVARIANTS PrintDone Refines\nCHECK_DEADLOCK FALSE\n")
    md = os.path.join(workdir, "md_sim_" + name)
    env = dict(os.environ, JAVA_TOOL_OPTIONS="-Xss1g -Xmx3g")
    r = subprocess.run(["tlc", "-workers", "4", "-simulate", "num=%d" % num, "-depth", "600", "-seed", str(seed + 1),
                        "-metadir", md, "-cleanup", "-noGenerateSpecTE", "-config", cfg, "MC_Cover.tla"],
                       cwd=SPEC, env=env, stdout=subprocess.PIPE, stderr=subprocess.STDOUT, text=True, timeout=900)
    subprocess.run(["rm", "-rf", md])
    if "is violated" in r.stdout:
        raise RuntimeError("simulation of the design violated an invariant (%s):\n%s" % (name, r.stdout[-2000:]))
    hists = []
    for m in re.finditer(r'<<"HIST", "(.*?)">>', r.stdout.replace("\n", "")):
        d = json.loads(m.group(1).replace('\\"', '"'))
        hists.append((d["h"], d["rets"]))
    return hists


def jobs(tier, seed, workdir, start_id=0):
    os.makedirs(workdir, exist_ok=True)
    per = 500 if tier == "quick" else 3000
    keep = 700 if tier == "quick" else 6000
    out = []
    stats = {"behaviours": 0, "selected": 0, "features": 0}
    for (name, prog, threads, nf, extra, strat) in ([CONFIGS[0], CONFIGS[1], CONFIGS[2], CONFIGS[4]] if tier == "quick" else CONFIGS):
        hists = simulate(name, prog, threads, nf, extra, per, seed, workdir)
        stats["behaviours"] += len(hists)
        # greedy cover
        rets = [h[1] for h in hists]
        hists = [h[0] for h in hists]
        feats = [features(h) for h in hists]
        covered, chosen = set(), []
        order = sorted(range(len(hists)), key=lambda i: -len(feats[i]))
        while len(chosen) < keep:
            best, gain = None, 0
            for i in order:
                if i in chosen:
                    continue
                g = len(feats[i] - covered)
                if g > gain:
                    best, gain = i, g
            if best is None:
                break
            chosen.append(best)
            covered |= feats[best]
        # fill up with arbitrary further behaviours
        for i in order:
            if len(chosen) >= keep:
                break
            if i not in chosen:
                chosen.append(i)
        stats["features"] += len(covered)
        p = real_program(prog, strat)
        for i in chosen:
            out.append({"fam": "tlc:" + name, "prog": p, "sched": {"kind": "until", "segs": to_segments(hists[i])},
                        "model_len": len(hists[i]),
                        "model_rets": [[r[0], r[1], r[2]] for r in rets[i] if r[1] in ("load", "load_full", "swap", "rcu", "cache_new", "cache_load")]})
    stats["selected"] = len(out)
    for i, j in enumerate(out):
        j["id"] = start_id + i
    return out, stats

"""Negative controls: the trace specification must accept recorded executions and reject corrupted ones."""
import json
import os
import shutil

import gen


def register_collisions():
    """no generated schedule family may use one driver register from two threads (a thread overwriting another one's
    guard would look like a defect of the crate): checked over all systematic jobs of both tiers"""
    bad = {}
    for tier in ("quick", "thorough"):
        for j in gen.sandwich(tier):
            regs = {}
            for t, ops in enumerate(j["prog"]["threads"]):
                for o in ops:
                    if o.get("op") == "pad":
                        continue
                    for k in ("g", "h", "p", "x"):
                        if isinstance(o.get(k), int):
                            if regs.setdefault((k, o[k]), t) != t:
                                bad[j["fam"]] = (k, o[k])
    return bad


def run(P):
    bad = register_collisions()
    if bad:
        print("selftest: schedule families share registers between threads:", bad)
        return 2
    wd = os.path.join(P.CACHE, "selftest_%d" % os.getpid())
    os.makedirs(wd, exist_ok=True)
    try:
        jobs = gen.gen(["rw", "cas", "guards", "multi"], 40, 12345)
        res = P.run_and_validate(jobs, "st", wd, atomics="st", specs=("Trace_Abs",), nproc=1)
        if res["viols"]:
            print("selftest: recorded executions rejected:", res["viols"][:2])
            return 2
        src = res["files"][0]
        lines = open(src).read().splitlines()
        evs = [json.loads(l) for l in lines]

        def variant(name, mutate, expect):
            out = list(evs)
            if not mutate(out):
                print("selftest: control %s not applicable" % name)
                return False
            p = os.path.join(wd, "neg_%s.ndjson" % name)
            with open(p, "w") as f:
                for e in out:
                    f.write(json.dumps(e) + "\n")
            r = P.validate_chunk(p, "Trace_Abs", wd)
            props = {q for v in r["viols"] for q in v["prop"].split("+")}
            if not (props & expect):
                print("selftest: corrupted trace '%s' was NOT rejected as %s (got %s)" % (name, expect, props))
                return False
            return True

        def corrupt_load(out):
            for i, e in enumerate(out):
                if e["e"] == "ret" and e["op"] == "load" and e["v"] > 0:
                    out[i] = dict(e, v=e["v"] + 50)
                    return True
            return False

        def drop_dec(out):
            for i, e in enumerate(out):
                if e["e"] == "dec":
                    del out[i]
                    return True
            return False

        def early_destroy(out):
            # a dereference that finds the value destroyed
            for i, e in enumerate(out):
                if e["e"] == "deref" and e["o"] > 0:
                    out[i] = dict(e, alive=False)
                    return True
            return False

        def drop_write(out):
            for i, e in enumerate(out):
                if e["e"] == "w":
                    del out[i]
                    return True
            return False

        def swap_ret(out):
            for i, e in enumerate(out):
                if e["e"] == "ret" and e["op"] == "swap":
                    out[i] = dict(e, v=e["v"] + 70)
                    return True
            return False

        def shared_envelope(out):
            for i, e in enumerate(out):
                if e["e"] == "q" and len(e.get("spaces", [])) >= 2 and e["spaces"][0] > 0:
                    sp = list(e["spaces"])
                    sp[1] = sp[0]
                    out[i] = dict(e, spaces=sp)
                    return True
            return False

        ok = True
        ok &= variant("corrupt_load", corrupt_load, {"C03", "C01"})
        ok &= variant("drop_dec", drop_dec, {"HARNESS", "C02"})
        ok &= variant("early_destroy", early_destroy, {"C01"})
        ok &= variant("drop_write", drop_write, {"C04", "C03", "C05", "C06"})
        ok &= variant("swap_ret", swap_ret, {"C04"})
        ok &= variant("shared_envelope", shared_envelope, {"C01", "C03"})
        if not ok:
            return 2
        print("selftest: ok (%d executions accepted, 6 corrupted traces rejected)" % res["execs"])
        return 0
    finally:
        shutil.rmtree(wd, ignore_errors=True)

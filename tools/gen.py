#!/usr/bin/env python3
"""Program + schedule generators for the asv harness (random / PCT / adversary / solo families).

Every generator is a function (rng, k) -> list of jobs {"id", "fam", "prog", "sched"}.
Programs are robust by construction: the driver skips an operation whose register is empty.
"""
import json
import random
import sys

R = 16  # registers per thread


def new(pd=False):
    return {"new": {"pd": pd}}


def src(rng, t, pnull=0.1, ph=0.2, pd=0.0):
    x = rng.random()
    if x < pnull:
        return "null"
    if x < pnull + ph:
        return {"h": t * R + rng.randrange(4)}
    return new(rng.random() < pd)


def reader_ops(rng, t, c, n, full=0.3):
    ops = []
    for i in range(n):
        g = t * R + rng.randrange(6)
        if rng.random() < full:
            h = t * R + rng.randrange(4)
            ops += [{"op": "load_full", "c": c, "h": h}, {"op": "deref_h", "h": h}]
            if rng.random() < 0.5:
                ops.append({"op": "drop_h", "h": h})
        else:
            ops += [{"op": "load", "c": c, "g": g}, {"op": "deref_g", "g": g}]
            x = rng.random()
            if x < 0.5:
                ops.append({"op": "drop_g", "g": g})
            elif x < 0.65:
                h = t * R + rng.randrange(4)
                ops += [{"op": "into_inner", "g": g, "h": h}, {"op": "deref_h", "h": h}]
    return ops


def writer_ops(rng, t, c, n, pd=0.0):
    ops = []
    for i in range(n):
        x = rng.random()
        if x < 0.5:
            ops.append({"op": "store", "c": c, "v": src(rng, t, pd=pd)})
        else:
            h = t * R + rng.randrange(4)
            ops += [{"op": "swap", "c": c, "v": src(rng, t, pd=pd), "h": h}, {"op": "deref_h", "h": h}]
    return ops


def cur_of(rng, t):
    x = rng.random()
    k = t * R + rng.randrange(4)
    g = t * R + rng.randrange(6)
    if x < 0.15:
        return "null"
    if x < 0.35:
        return {"h": k}
    if x < 0.45:
        return {"raw_mut": k}
    if x < 0.55:
        return {"raw_const": k}
    if x < 0.8:
        return {"gref": g}
    return {"g": g}


def cas_ops(rng, t, c, n):
    ops = []
    for i in range(n):
        x = rng.random()
        g = t * R + rng.randrange(6)
        h = t * R + rng.randrange(4)
        if x < 0.45:
            # load then CAS against what was loaded
            form = rng.choice(["gref", "g", "h"])
            if form == "h":
                ops += [{"op": "load_full", "c": c, "h": h},
                        {"op": "cas", "c": c, "cur": {"h": h}, "v": src(rng, t, ph=0.1), "g": g}]
            else:
                g0 = t * R + 6 + rng.randrange(2)
                ops += [{"op": "load", "c": c, "g": g0},
                        {"op": "cas", "c": c, "cur": {form: g0}, "v": src(rng, t, ph=0.1), "g": g}]
            ops.append({"op": "deref_g", "g": g})
        elif x < 0.6:
            ops += [{"op": "cas", "c": c, "cur": cur_of(rng, t), "v": src(rng, t), "g": g}, {"op": "deref_g", "g": g}]
        else:
            ops += [{"op": "rcu", "c": c, "h": h}, {"op": "deref_h", "h": h}]
        if rng.random() < 0.5:
            ops.append({"op": "drop_g", "g": g})
    return ops


def mixed_ops(rng, t, cs, n, pd=0.0):
    ops = []
    for i in range(n):
        c = rng.choice(cs)
        x = rng.random()
        if x < 0.4:
            ops += reader_ops(rng, t, c, 1)
        elif x < 0.7:
            ops += writer_ops(rng, t, c, 1, pd)
        else:
            ops += cas_ops(rng, t, c, 1)
    return ops


def sched_of(rng, kind=None, nthreads=2, steps=300):
    kind = kind or rng.choice(["random", "random", "pct", "pct"])
    if kind == "pct":
        return {"kind": "pct", "seed": rng.randrange(1 << 30), "d": rng.choice([1, 2, 3, 4]), "len": steps,
                "spur": rng.choice([0.0, 0.0, 0.2])}
    return {"kind": "random", "seed": rng.randrange(1 << 30), "p": rng.choice([0.05, 0.2, 0.5, 0.9]),
            "spur": rng.choice([0.0, 0.0, 0.2])}


def init_ops(rng, cs, pnull=0.1):
    return [{"op": "new", "c": c, "v": ("null" if rng.random() < pnull else new())} for c in cs]


def strategy_of(rng):
    return rng.choice(["default", "default", "nofast"])


def reuse_of(rng):
    return rng.choice(["never", "lifo", "lifo", "fifo"])


# ------------------------------------------------------------------ families

def fam_rw(rng):
    """readers x writers on one container"""
    nr, nw = rng.choice([(1, 1), (1, 1), (2, 1), (1, 2), (2, 2)])
    th = [init_ops(rng, [0]) + reader_ops(rng, 0, 0, rng.randrange(1, 4))]
    for t in range(1, nr):
        th.append(reader_ops(rng, t, 0, rng.randrange(1, 4)))
    for t in range(nr, nr + nw):
        th.append(writer_ops(rng, t, 0, rng.randrange(1, 4)))
    # the container must exist before anybody uses it: thread 0 creates it, others wait by construction
    return prog_with_setup(rng, th)


def prog_with_setup(rng, th, cs=(0,), strategy=None, reuse=None, pnull=0.1):
    """thread 0 = setup thread creating the containers, then exits; everyone else waits for it."""
    setup = init_ops(rng, list(cs), pnull)
    threads = [setup] + [[{"op": "wait", "t": 0}] + ops for ops in th]
    return {"threads": threads, "strategy": strategy or strategy_of(rng), "reuse": reuse or reuse_of(rng)}


def fam_rw2(rng):
    nr, nw = rng.choice([(1, 1), (1, 1), (2, 1), (1, 2), (2, 2), (3, 1)])
    th = []
    for t in range(1, 1 + nr):
        th.append(reader_ops(rng, t, 0, rng.randrange(1, 4)))
    for t in range(1 + nr, 1 + nr + nw):
        th.append(writer_ops(rng, t, 0, rng.randrange(1, 4)))
    return prog_with_setup(rng, th)


def fam_cas(rng):
    n = rng.choice([2, 2, 3])
    th = []
    for t in range(1, 1 + n):
        x = rng.random()
        if x < 0.6:
            th.append(cas_ops(rng, t, 0, rng.randrange(1, 4)))
        elif x < 0.8:
            th.append(writer_ops(rng, t, 0, rng.randrange(1, 3)))
        else:
            th.append(reader_ops(rng, t, 0, rng.randrange(1, 4)))
    return prog_with_setup(rng, th)


def fam_guards(rng):
    """many guards held on one thread (more than fast slots), writers meanwhile"""
    ng = rng.choice([7, 8, 9, 10, 12])
    t = 1
    ops = []
    for i in range(ng):
        ops.append({"op": "load", "c": 0, "g": 100 + i})
    ops += reader_ops(rng, t, 0, 2)
    if rng.random() < 0.5:
        ops += writer_ops(rng, t, 0, 1)   # a writer on the same thread as the guards
    order = list(range(ng))
    rng.shuffle(order)
    # more loads while the old guards are alive: slots emptied by a writer are handed out again
    if rng.random() < 0.6:
        ops += writer_ops(rng, t, 0, 1)
        for i in range(rng.randrange(1, 10)):
            ops.append({"op": "load", "c": 0, "g": 130 + i})
    for i in order:
        ops.append({"op": "deref_g", "g": 100 + i})
        if rng.random() < 0.4:
            ops += [{"op": "into_inner", "g": 100 + i, "h": 150 + i}, {"op": "deref_h", "h": 150 + i}]
        else:
            ops.append({"op": "drop_g", "g": 100 + i})
    th = [ops, writer_ops(rng, 2, 0, rng.randrange(1, 4))]
    if rng.random() < 0.4:
        # another thread drops some of the guards instead (moved guards)
        th.append([{"op": "nop"}] * rng.randrange(1, 4) + [{"op": "drop_g", "g": 100 + i} for i in order[:4]])
    return prog_with_setup(rng, th, strategy="default")


def fam_multi(rng):
    """two or three containers sharing threads and values"""
    nc = rng.choice([2, 2, 3])
    cs = list(range(nc))
    n = rng.choice([2, 3])
    th = []
    for t in range(1, 1 + n):
        ops = mixed_ops(rng, t, cs, rng.randrange(2, 5))
        # share a value between containers
        if rng.random() < 0.5:
            h = t * R
            ops = [{"op": "load_full", "c": cs[0], "h": h}, {"op": "store", "c": cs[1], "v": {"h": h}}] + ops
        th.append(ops)
    return prog_with_setup(rng, th, cs=cs)


def fam_churn(rng):
    """threads start, use, exit; later threads reuse nodes; a writer walks meanwhile"""
    n = rng.choice([3, 4, 5])
    th = []
    for t in range(1, 1 + n):
        ops = []
        if t > 1 and rng.random() < 0.6:
            ops.append({"op": "wait", "t": rng.randrange(1, t)})
        ops += mixed_ops(rng, t, [0], rng.randrange(1, 3))
        if rng.random() < 0.3:
            # leave a guard behind for the finalizer (guard outlives its creating thread)
            ops.append({"op": "load", "c": 0, "g": 200 + t})
        th.append(ops)
    return prog_with_setup(rng, th)


def fam_cache(rng):
    th = []
    t = 1
    ops = [{"op": "cache_new", "x": 0, "c": 0, "m": rng.random() < 0.4}]
    for i in range(rng.randrange(2, 6)):
        x = rng.random()
        if x < 0.6:
            ops.append({"op": "cache_load", "x": 0})
        elif x < 0.75:
            ops.append({"op": "cache_clone", "x": 0, "y": 1})
        elif x < 0.9:
            ops.append({"op": "cache_load", "x": 1})
        else:
            ops += writer_ops(rng, t, 0, 1)
    th.append(ops)
    for t in range(2, 2 + rng.choice([1, 1, 2])):
        if rng.random() < 0.3:
            ops = [{"op": "cache_new", "x": 10 + t, "c": 0, "m": rng.random() < 0.4}, {"op": "cache_load", "x": 10 + t}, {"op": "cache_load", "x": 10 + t}]
        else:
            ops = writer_ops(rng, t, 0, rng.randrange(1, 4))
            if rng.random() < 0.3:
                # A-B-A: restore a previously seen value
                h = t * R
                ops = [{"op": "load_full", "c": 0, "h": h}] + ops + [{"op": "store", "c": 0, "v": {"h": h}}]
        th.append(ops)
    return prog_with_setup(rng, th)


def fam_panic(rng):
    """user code panics: destructors of replaced values, rcu closures"""
    n = rng.choice([1, 2, 2])
    th = []
    for t in range(1, 1 + n):
        ops = []
        for i in range(rng.randrange(1, 4)):
            x = rng.random()
            h = t * R + rng.randrange(4)
            if x < 0.35:
                ops.append({"op": "rcu", "c": 0, "h": h, "panic_at": rng.choice([1, 1, 2, 3]), "pd": rng.random() < 0.3})
            elif x < 0.6:
                ops.append({"op": "store", "c": 0, "v": new(True)})
                ops.append({"op": "store", "c": 0, "v": new(False)})
            elif x < 0.75:
                g = t * R + rng.randrange(6)
                ops += [{"op": "load", "c": 0, "g": g}, {"op": "store", "c": 0, "v": new(True)}, {"op": "drop_g", "g": g}]
            elif x < 0.82:
                g = t * R + rng.randrange(6)
                ops += [{"op": "cas", "c": 0, "cur": "null", "v": new(True), "g": g}, {"op": "drop_g", "g": g}]
            elif x < 0.9:
                # the guard itself (by value / by reference) as `current`, its value possibly replaced meanwhile
                g, g2 = t * R + rng.randrange(6), t * R + 6 + rng.randrange(2)
                ops += [{"op": "store", "c": 0, "v": new(True)}, {"op": "load", "c": 0, "g": g2}]
                if rng.random() < 0.6:
                    ops.append({"op": "store", "c": 0, "v": new(rng.random() < 0.5)})
                ops += [{"op": "cas", "c": 0, "cur": {rng.choice(["g", "g", "gref"]): g2}, "v": new(rng.random() < 0.3), "g": g}, {"op": "drop_g", "g": g}]
            else:
                ops += reader_ops(rng, t, 0, 1)
        th.append(ops)
    p = prog_with_setup(rng, th)
    return p


def fam_wrap(rng):
    """generation counter wraps on a reader thread (forced onto the fallback path)"""
    t = 1
    back = rng.choice([1, 1, 2, 3])
    ops = []
    strategy = rng.choice(["nofast", "default"])
    if strategy == "default":
        ops.append({"op": "pad", "c": 0, "free": 0, "base": 300})
    ops.append({"op": "load", "c": 0, "g": t * R})      # claim a node first
    ops.append({"op": "drop_g", "g": t * R})
    ops.append({"op": "set_gen", "back": back})
    for i in range(back + rng.randrange(1, 4)):
        g = t * R + rng.randrange(4)
        ops += [{"op": "load", "c": 0, "g": g}, {"op": "deref_g", "g": g}]
        if rng.random() < 0.5:
            ops.append({"op": "drop_g", "g": g})
    th = [ops]
    for t in range(2, 2 + rng.choice([0, 1, 1, 2])):
        th.append(writer_ops(rng, t, 0, rng.randrange(1, 4)) if rng.random() < 0.7 else reader_ops(rng, t, 0, 2))
    return prog_with_setup(rng, th, strategy=strategy)


def fam_tls(rng):
    """container operations from thread-local destructors"""
    th = []
    for t in range(1, 1 + rng.choice([1, 2])):
        early = rng.random() < 0.5
        inner = mixed_ops(rng, t, [0], rng.randrange(1, 3))
        ops = [{"op": "tls", "early": early, "ops": inner}]
        ops += mixed_ops(rng, t, [0], rng.randrange(0, 3))
        th.append(ops)
    if rng.random() < 0.6:
        th.append(writer_ops(rng, 3, 0, 2))
    return prog_with_setup(rng, th)


def fam_drop(rng):
    """container dropped / consumed while guards and handles are alive"""
    t = 1
    ops = reader_ops(rng, t, 0, 2)
    ops += [{"op": "load", "c": 0, "g": 100}, {"op": "load_full", "c": 0, "h": 100}]
    th = [ops]
    t2 = [{"op": "wait", "t": 1}]
    t2 += [{"op": "into_inner_c", "c": 0, "h": 101}] if rng.random() < 0.5 else [{"op": "drop_c", "c": 0, "unwinding": rng.random() < 0.4}]
    t2 += [{"op": "deref_g", "g": 100}, {"op": "deref_h", "h": 100}, {"op": "deref_h", "h": 101},
           {"op": "drop_g", "g": 100}]
    th.append(t2)
    return prog_with_setup(rng, th)


def fam_mixed(rng):
    n = rng.choice([2, 2, 3, 3, 4])
    cs = [0] if rng.random() < 0.7 else [0, 1]
    th = [mixed_ops(rng, t, cs, rng.randrange(1, 4)) for t in range(1, 1 + n)]
    return prog_with_setup(rng, th, cs=cs)


def fam_panic_help(rng):
    """fallback reader helped by a writer while the stored value's destructor panics (C18)"""
    th = []
    th.append([{"op": "store", "c": 0, "v": new(True)}] if rng.random() < 0.5 else [])
    nr = rng.choice([1, 1, 2])
    for t in range(2, 2 + nr):
        ops = [{"op": "wait", "t": 1}]
        for i in range(rng.randrange(1, 3)):
            g = t * R + i
            x = rng.random()
            if x < 0.5:
                ops += [{"op": "load", "c": 0, "g": g}, {"op": "deref_g", "g": g}, {"op": "drop_g", "g": g}]
            elif x < 0.75:
                # the internal loads of rcu / compare_and_swap take the same path (the value being installed is in flight)
                ops += [{"op": "rcu", "c": 0, "h": g}, {"op": "drop_h", "h": g}]
            else:
                ops += [{"op": "cas", "c": 0, "cur": "null", "v": new(False), "g": g}, {"op": "drop_g", "g": g}]
        th.append(ops)
    for t in range(2 + nr, 3 + nr + rng.choice([0, 1])):
        th.append([{"op": "wait", "t": 1}] + [{"op": "store", "c": 0, "v": new(rng.random() < 0.5)} for _ in range(rng.randrange(1, 3))])
    p = prog_with_setup(rng, th, strategy="nofast", pnull=0.0)
    p["threads"][0] = [{"op": "new", "c": 0, "v": new(True)}]
    return p


def fam_aba(rng):
    """address reuse under a fast-path reader: the debt of a freed address is paid for a newer object (C07, C01)"""
    th = []
    nr = rng.choice([1, 1, 2])
    for t in range(1, 1 + nr):
        ops = []
        for i in range(rng.randrange(1, 3)):
            g = t * R + i
            ops += [{"op": "load", "c": 0, "g": g}, {"op": "deref_g", "g": g}]
            if rng.random() < 0.7:
                ops.append({"op": "drop_g", "g": g})
        th.append(ops)
    for t in range(1 + nr, 2 + nr + rng.choice([0, 0, 1])):
        th.append([{"op": "store", "c": 0, "v": new()} for _ in range(rng.randrange(2, 5))])
    return prog_with_setup(rng, th, strategy=rng.choice(["default", "default", "nofast"]), reuse="lifo", pnull=0.0)


def fam_help2w(rng):
    """a fallback reader doing several loads while two or three writers replace the value (helping retries)"""
    t = 1
    ops = []
    for i in range(rng.randrange(2, 5)):
        g = t * R + i
        ops += [{"op": "load", "c": 0, "g": g}, {"op": "deref_g", "g": g}]
        if rng.random() < 0.6:
            ops.append({"op": "drop_g", "g": g})
    th = [ops]
    for t in range(2, 2 + rng.choice([2, 2, 3])):
        th.append([{"op": "store", "c": 0, "v": new()} for _ in range(rng.randrange(1, 3))])
    return prog_with_setup(rng, th, strategy="nofast", reuse=rng.choice(["never", "lifo"]), pnull=0.0)


def fam_adv(rng):
    """C08: a reader whose every step is followed by k complete writes (adversary), with 0..12 guards already held"""
    held = rng.choice([0, 0, 3, 7, 8, 12])
    t = 1
    ops = [{"op": "load", "c": 0, "g": 90}, {"op": "drop_g", "g": 90}]        # the thread has used the crate before
    for i in range(held):
        ops.append({"op": "load", "c": 0, "g": 100 + i})
    for i in range(rng.randrange(1, 4)):
        if rng.random() < 0.5:
            ops += [{"op": "load", "c": 0, "g": t * R + i}, {"op": "deref_g", "g": t * R + i}]
        else:
            ops += [{"op": "load_full", "c": 0, "h": t * R + i}, {"op": "deref_h", "h": t * R + i}]
    th = [ops]
    nw = rng.choice([1, 1, 2])
    for w in range(2, 2 + nw):
        th.append([{"op": "store", "c": 0, "v": new()} for _ in range(rng.choice([150, 300, 600]))])
    # no address reuse here: with reuse the k-th new value may sit at the old address again and the confirming read matches
    p = prog_with_setup(rng, th, strategy=rng.choice(["default", "default", "nofast"]), reuse=rng.choice(["never", "never", "fifo"]), pnull=0.0)
    p["_sched"] = {"kind": "adversary", "victim": 1, "k": rng.choice([1, 1, 1, 2]), "warm": 2 + held}
    p["step_limit"] = 400000
    return p


def fam_solo(rng):
    """C09: at a random point everybody but one thread is frozen; that thread must finish its operation alone"""
    base = rng.choice([fam_mixed, fam_multi, fam_guards, fam_cas, fam_rw2, fam_help2w, fam_solo2c])(rng)
    n = len(base["threads"])
    base["_sched"] = {"kind": "solo", "base": {"kind": "random", "seed": rng.randrange(1 << 30), "p": rng.choice([0.2, 0.5, 0.9])},
                      "at": rng.randrange(3, 200), "t": rng.randrange(1, n)}
    return base


def fam_solo2c(rng):
    """readers on the fallback path of one container, writers on another one"""
    th = []
    t = 1
    ops = [{"op": "pad", "c": 0, "free": 0, "base": 300}] if rng.random() < 0.5 else []
    for i in range(rng.randrange(2, 5)):
        ops += [{"op": "load", "c": 0, "g": t * R + i}, {"op": "drop_g", "g": t * R + i}]
    th.append(ops)
    for t in range(2, 2 + rng.choice([1, 2])):
        th.append([{"op": rng.choice(["store", "store", "swap"]), "c": 1, "v": new(), "h": t * R} for _ in range(rng.randrange(1, 4))])
    return prog_with_setup(rng, th, cs=(0, 1), strategy=rng.choice(["nofast", "default"]), pnull=0.0)


def fam_access(rng):
    """C17: projection guards through Access / Map / DynAccess / AccessConvert, stores during their life"""
    th = []
    nr = rng.choice([1, 2])
    for t in range(1, 1 + nr):
        ops = []
        for i in range(rng.randrange(1, 4)):
            p = t * R + i
            ops += [{"op": "acc_load", "c": 0, "p": p, "kind": rng.randrange(9)}, {"op": "deref_p", "p": p}]
            if rng.random() < 0.4:
                ops += writer_ops(rng, t, 0, 1)
                ops.append({"op": "deref_p", "p": p})
            if rng.random() < 0.6:
                ops.append({"op": "drop_p", "p": p})
        ops += [{"op": "deref_p", "p": t * R + i} for i in range(3)]
        th.append(ops)
    for t in range(1 + nr, 2 + nr + rng.choice([0, 1])):
        th.append(writer_ops(rng, t, 0, rng.randrange(1, 4)))
    return prog_with_setup(rng, th, strategy=rng.choice(["default", "default", "nofast"]))


def fam_cache2(rng):
    """C16: many cache loads racing with many stores, addresses reused (stale 'unchanged' decisions)"""
    th = []
    ops = [{"op": "cache_new", "x": 0, "c": 0, "m": rng.random() < 0.4}]
    for i in range(rng.randrange(4, 9)):
        ops.append({"op": "cache_load", "x": 0})
    th.append(ops)
    for t in range(2, 2 + rng.choice([1, 1, 2])):
        th.append([{"op": "store", "c": 0, "v": new()} for _ in range(rng.randrange(3, 8))])
    return prog_with_setup(rng, th, strategy=rng.choice(["default", "nofast"]), reuse="lifo", pnull=0.0)


def fam_serde(rng):
    """C20 under concurrency: the container is serialized while writers replace the value"""
    th = []
    for t in range(1, 1 + rng.choice([1, 2])):
        th.append([{"op": "ser", "c": 0} for _ in range(rng.randrange(1, 4))])
    for t in range(3, 3 + rng.choice([1, 2])):
        th.append(writer_ops(rng, t, 0, rng.randrange(1, 4)))
    return prog_with_setup(rng, th, reuse=rng.choice(["never", "lifo"]))


def fam_rcu_reentrant(rng):
    """C06: closures that themselves write the same (or another) container: a competing write in every retry window"""
    n = rng.choice([1, 2, 3, 7, 40, 1, 2, 3, 7, 40, 5000])
    c2 = rng.choice([0, 0, 1])
    inner = rng.choice([{"op": "store", "c": c2, "v": new()}, {"op": "rcu", "c": c2, "h": 1 * R + 9}])
    ops = [{"op": "rcu", "c": 0, "h": 1 * R, "nested": [inner], "nested_until": n}, {"op": "deref_h", "h": 1 * R},
           {"op": "load_full", "c": 0, "h": 1 * R + 1}, {"op": "deref_h", "h": 1 * R + 1}]
    th = [ops]
    if rng.random() < 0.5 and n < 100:
        th.append(writer_ops(rng, 2, 0, rng.randrange(1, 3)))
    p = prog_with_setup(rng, th, cs=(0, 1), strategy=rng.choice(["default", "nofast"]), reuse="never", pnull=0.0)
    if n > 100:
        p["step_limit"] = 1500000
    return p


def fam_rwlock(rng):
    """the lock-based reference strategy under concurrency: readers, swap/store, compare_and_swap and rcu on 2-3 threads
    (the scheduler takes the baton away from a thread that blocks on the lock)"""
    n = rng.choice([2, 2, 3])
    th = []
    for t in range(1, 1 + n):
        x = rng.random()
        if x < 0.4:
            th.append(cas_ops(rng, t, 0, rng.randrange(1, 3)))
        elif x < 0.75:
            th.append(writer_ops(rng, t, 0, rng.randrange(1, 3)))
        else:
            th.append(reader_ops(rng, t, 0, rng.randrange(1, 3)))
    if not any(o.get("op") in ("store", "swap", "rcu", "cas") for ops in th for o in ops):
        th[0] = writer_ops(rng, 1, 0, 2)
    return prog_with_setup(rng, th, strategy="rwlock")


FAMILIES = {
    "rwlock": fam_rwlock,
    "rcu_reentrant": fam_rcu_reentrant,
    "serde": fam_serde,
    "cache2": fam_cache2,
    "access": fam_access,
    "adv": fam_adv,
    "solo": fam_solo,
    "solo2c": fam_solo2c,
    "help2w": fam_help2w,
    "aba": fam_aba,
    "panic_help": fam_panic_help,
    "rw": fam_rw2,
    "cas": fam_cas,
    "guards": fam_guards,
    "multi": fam_multi,
    "churn": fam_churn,
    "cache": fam_cache,
    "panic": fam_panic,
    "wrap": fam_wrap,
    "tls": fam_tls,
    "drop": fam_drop,
    "mixed": fam_mixed,
}


def gen(fams, n, seed, start_id=0):
    rng = random.Random(seed)
    jobs = []
    names = list(fams)
    for i in range(n):
        f = names[i % len(names)]
        prog = FAMILIES[f](rng)
        sch = prog.pop("_sched", None) or sched_of(rng, nthreads=len(prog["threads"]))
        jobs.append({"id": start_id + i, "fam": f, "prog": prog, "sched": sch})
    return jobs


if __name__ == "__main__":
    fams = sys.argv[1].split(",")
    n = int(sys.argv[2])
    seed = int(sys.argv[3]) if len(sys.argv) > 3 else 0
    if fams == ["all"]:
        fams = list(FAMILIES)
    for j in gen(fams, n, seed):
        print(json.dumps(j))


def directed(start_id=0, seed=0, tier="quick"):
    """Directed schedules (TLC-derived needles, regression schedules). Filled in as they are found."""
    import os
    jobs = []
    d = os.path.join(os.path.dirname(os.path.dirname(os.path.abspath(__file__))), "directed")
    if os.path.isdir(d):
        for f in sorted(os.listdir(d)):
            if f.endswith(".ndjson"):
                for line in open(os.path.join(d, f)):
                    if line.strip():
                        j = json.loads(line)
                        j["fam"] = "directed:" + f[:-7]
                        jobs.append(j)
    for i, j in enumerate(jobs):
        j["id"] = start_id + i
    return jobs


def sandwich(tier="quick", start_id=0):
    """Systematic two-thread exploration: A runs k1 steps, B runs k2 steps, A completes, B completes (and the
    symmetric order): every schedule in which each thread is preempted at most once."""
    def prog(a, b, strategy, reuse="lifo", pd=False):
        return {"threads": [[{"op": "new", "c": 0, "v": new(pd)}],
                            [{"op": "wait", "t": 0}] + a, [{"op": "wait", "t": 0}] + b],
                "strategy": strategy, "reuse": reuse}
    ld = [{"op": "load", "c": 0, "g": 16}, {"op": "deref_g", "g": 16}, {"op": "drop_g", "g": 16}]
    lf = [{"op": "load_full", "c": 0, "h": 16}, {"op": "deref_h", "h": 16}, {"op": "drop_h", "h": 16}]
    st = [{"op": "store", "c": 0, "v": new()}]
    sw = [{"op": "swap", "c": 0, "v": new(), "h": 32}, {"op": "deref_h", "h": 32}]
    rcu = [{"op": "rcu", "c": 0, "h": 33}, {"op": "deref_h", "h": 33}]
    cas = [{"op": "load_full", "c": 0, "h": 34}, {"op": "cas", "c": 0, "cur": {"h": 34}, "v": new(), "g": 35}, {"op": "deref_g", "g": 35}]
    warm = [{"op": "load", "c": 0, "g": 60}, {"op": "drop_g", "g": 60}]   # claim the node first: shorter, C08-relevant
    warm2 = [{"op": "load", "c": 0, "g": 61}, {"op": "drop_g", "g": 61}]
    pairs_q = [("ld/st/nofast", warm + ld, warm2 + st, "nofast", 26, 44), ("ld/st", warm + ld, warm2 + st, "default", 24, 44),
               ("rcu/st", warm + rcu, warm2 + st, "default", 40, 44)]
    pairs_t = pairs_q + [("lf/sw/nofast", warm + lf, warm2 + sw, "nofast", 30, 46), ("lf/sw", warm + lf, warm2 + sw, "default", 28, 46),
                         ("ld/rcu/nofast", warm + ld, warm2 + rcu, "nofast", 26, 70), ("rcu/rcu", warm + rcu, warm2 + [{"op": "rcu", "c": 0, "h": 43}, {"op": "deref_h", "h": 43}], "default", 60, 60),
                         ("cas/st/nofast", warm + cas, warm2 + st, "nofast", 60, 44), ("st/st/nofast", warm + st, warm2 + st, "nofast", 44, 44),
                         ("cold ld/st/nofast", ld, st, "nofast", 36, 60), ("ld2/st/nofast", warm + ld + ld, warm2 + st + st, "nofast", 40, 80)]
    # A-B-A on the stored pointer while a compare_and_swap / rcu is in flight (the same value is stored back)
    aba = warm2 + [{"op": "load_full", "c": 0, "h": 44}, {"op": "store", "c": 0, "v": new()}, {"op": "store", "c": 0, "v": {"h": 44}}]
    # compare_and_swap with the guard passed by value / by reference as `current`, two stores meanwhile (address reuse)
    casg = [{"op": "load", "c": 0, "g": 36}, {"op": "cas", "c": 0, "cur": {"g": 36}, "v": new(), "g": 35}, {"op": "deref_g", "g": 35}]
    casr = [{"op": "load", "c": 0, "g": 36}, {"op": "cas", "c": 0, "cur": {"gref": 36}, "v": new(), "g": 35}, {"op": "deref_g", "g": 35}]
    st2 = [{"op": "store", "c": 0, "v": new()}, {"op": "store", "c": 0, "v": new()}]
    pairs_q += [("casg/st2", warm + casg, warm2 + st2, "default", 40, 2), ("casr/st2", warm + casr, warm2 + st2, "default", 40, 2),
                ("casg/st2/nofast", warm + casg, warm2 + st2, "nofast", 44, 2)]
    pairs_t += [("casg/st2", warm + casg, warm2 + st2, "default", 44, 70), ("casr/st2", warm + casr, warm2 + st2, "default", 44, 70)]
    # the lock-based reference strategy (the scheduler takes the baton away from a thread that blocks on the lock)
    pairs_q += [("cas/sw/rwlock", warm + cas, warm2 + sw, "rwlock", 16, 14), ("rcu/st/rwlock", warm + rcu, warm2 + st, "rwlock", 16, 12),
                ("ld/st/rwlock", warm + ld, warm2 + st, "rwlock", 12, 12)]
    pairs_t += [("cas/sw/rwlock", warm + cas, warm2 + sw, "rwlock", 16, 14), ("rcu/st/rwlock", warm + rcu, warm2 + st, "rwlock", 16, 12),
                ("ld/st/rwlock", warm + ld, warm2 + st, "rwlock", 12, 12), ("rcu/rcu/rwlock", warm + rcu, warm2 + [{"op": "rcu", "c": 0, "h": 43}, {"op": "deref_h", "h": 43}], "rwlock", 16, 16)]
    # projections (C17): a load through the Access machinery stopped at every point while a store completes
    for kind in (0, 1, 2, 3, 5):
        acc = [{"op": "acc_load", "c": 0, "p": 70, "kind": kind}, {"op": "deref_p", "p": 70}, {"op": "drop_p", "p": 70}]
        pairs_q += [("acc%d/st/nofast" % kind, warm + acc, warm2 + st, "nofast", 34, 2), ("acc%d/st" % kind, warm + acc, warm2 + st, "default", 30, 2)]
        pairs_t += [("acc%d/st/nofast" % kind, warm + acc, warm2 + st, "nofast", 34, 44), ("acc%d/st" % kind, warm + acc, warm2 + st, "default", 30, 44)]
    # cold start: two threads without a node (the list may be empty): A is stopped at every point of finding / creating its node
    ldb = [{"op": "load", "c": 0, "g": 21}, {"op": "deref_g", "g": 21}, {"op": "drop_g", "g": 21}]
    pairs_q += [("cold ld/ld", ld, ldb, "default", 30, 2), ("cold ld/st", ld, st, "default", 30, 2), ("cold st/ld", st, ldb, "default", 40, 2)]
    ser = [{"op": "ser", "c": 0}]
    pairs_q += [("cas/aba", warm + cas, aba, "default", 40, 2), ("rcu/aba", warm + rcu, aba, "default", 40, 2),
                ("ser/st", warm + ser, warm2 + st, "default", 24, 2)]
    pairs_t += [("cas/aba", warm + cas, aba, "default", 60, 120), ("rcu/aba", warm + rcu, aba, "default", 60, 120),
                ("cas/aba/nofast", warm + cas, aba, "nofast", 60, 120)]
    cache_a = [{"op": "cache_new", "x": 0, "c": 0}, {"op": "cache_load", "x": 0}, {"op": "cache_load", "x": 0}, {"op": "cache_load", "x": 0}]
    st3 = warm2 + [{"op": "store", "c": 0, "v": new()}, {"op": "store", "c": 0, "v": new()}, {"op": "store", "c": 0, "v": new()}]
    pairs_q += [("cache/st3", cache_a, st3, "default", 40, 110)] if tier != "quick" else []
    jobs = []
    # three context switches: A k1 | B k2 | A k3 | B completes | A completes
    tri = [("ld/st/nofast", warm + ld, warm2 + st, "nofast", 26, 44, 12, 14), ("ld/st", warm + ld, warm2 + st, "default", 24, 44, 12, 14),
           ("cas/aba", warm + cas, aba, "default", 44, 70, 18, 18), ("rcu/aba", warm + rcu, aba, "default", 40, 70, 12, 18),
           ("cache/st3", cache_a, st3, "default", 44, 100, 14, 12)]
    if tier == "quick":
        tri = tri[:-1]          # covered by the until:cache-window schedules in the quick tier
    for name, a, b, strat, ka, kb, la, lb in tri:
        p = prog(a, b, strat)
        for k1 in range(la, ka):
            for k2 in range(lb, kb):
                for k3 in (range(1, 4) if tier == "quick" else range(1, 9)):
                    jobs.append({"fam": "sandwich3:" + name, "prog": p,
                                 "sched": {"kind": "segs", "segs": [[1, k1], [2, k2], [1, k3], [2, 9999], [1, 9999]]}})
    # two containers sharing a reader's node (C12): the reader loads from one container and then from the other (fallback
    # path), a writer of one of them is stopped at every point of its walk: R k1 | W k2 | R k3 | W completes | R completes
    for order in ((1, 0, 1), (0, 1, 0), (1, 0, 0), (0, 1, 1)):      # (first load, second load, container written)
        p2 = {"threads": [[{"op": "new", "c": 0, "v": new()}, {"op": "new", "c": 1, "v": new()}],
                          [{"op": "wait", "t": 0}, {"op": "load", "c": order[0], "g": 16}, {"op": "deref_g", "g": 16}, {"op": "drop_g", "g": 16},
                           {"op": "load", "c": order[1], "g": 17}, {"op": "deref_g", "g": 17}, {"op": "drop_g", "g": 17}],
                          [{"op": "wait", "t": 0}] + warm2 + [{"op": "store", "c": order[2], "v": new()}]],
              "strategy": "nofast", "reuse": "never"}
        for k1 in (range(6, 18) if tier == "quick" else range(2, 30)):
            for k2 in (range(14, 44) if tier == "quick" else range(10, 50)):
                jobs.append({"fam": "sandwich:2c", "prog": p2, "sched": {"kind": "segs", "segs": [[1, k1], [2, k2], [1, 9999], [2, 9999]]}})
                for k3 in ((3, 7, 10, 11) if tier == "quick" else range(1, 14)):
                    jobs.append({"fam": "sandwich3:2c", "prog": p2,
                                 "sched": {"kind": "segs", "segs": [[1, k1], [2, k2], [1, k3], [2, 9999], [1, 9999]]}})
    # Cache::load: a store lands at every point inside the load (between the "unchanged?" check and the reload),
    # another one afterwards reuses the freed address (A-B-A on the address, C16)
    for strat, mapped in (("default", False), ("nofast", False), ("default", True)):
        pc = {"threads": [[{"op": "new", "c": 0, "v": new()}],
                          [{"op": "wait", "t": 0}, {"op": "cache_new", "x": 0, "c": 0, "m": mapped}, {"op": "cache_load", "x": 0},
                           {"op": "cache_load", "x": 0}, {"op": "cache_load", "x": 0}],
                          [{"op": "wait", "t": 0}] + warm2 + [{"op": "store", "c": 0, "v": new()} for _ in range(4)]],
              "strategy": strat, "reuse": "lifo"}
        for first in (2, 3):            # the store(s) before the observing load
            for k in range(1, 16):      # position inside the observing load
                for inside in (1, 2):   # stores landing inside the load
                    jobs.append({"fam": "until:cache-window", "prog": pc, "sched": {"kind": "until", "segs": [
                        [1, "inv", first], [2, "inv", 4], [1, "#%d" % k, 1], [2, "inv", 1 + inside], [1, "inv", 2], [2, "", 1], [1, "", 1]]}})
    # node re-claimed by a new thread while a writer is still inside it (cooldown / active_writers protocol, C11):
    # A is stopped mid-fallback, W walks into A's node and is stopped, A finishes and exits, B claims A's node and is
    # stopped mid-fallback on ANOTHER container, W resumes
    p3 = {"threads": [[{"op": "new", "c": 0, "v": new()}, {"op": "new", "c": 1, "v": new()}],
                      [{"op": "wait", "t": 0}, {"op": "load", "c": 0, "g": 16}, {"op": "deref_g", "g": 16}, {"op": "drop_g", "g": 16}],
                      [{"op": "wait", "t": 0}] + warm2 + [{"op": "store", "c": 0, "v": new()}],
                      [{"op": "wait", "t": 1}, {"op": "load", "c": 1, "g": 48}, {"op": "deref_g", "g": 48}, {"op": "drop_g", "g": 48}]],
          "strategy": "nofast", "reuse": "never"}
    for k1 in range(4, 12):
        for k2 in (range(16, 40) if tier == "quick" else range(10, 50)):
            for k3 in range(5, 13):
                jobs.append({"fam": "sandwich:reclaim-under-writer", "prog": p3,
                             "sched": {"kind": "segs", "segs": [[2, 13], [1, k1], [2, k2], [1, 9999], [3, k3], [2, 9999], [3, 9999]]}})
    # help collision (C01/C03: one hand-over envelope per transaction): a writer W is stopped before its k-th access to
    # the reader's bookkeeping while the reader's transaction it looked at is completed by ANOTHER writer V and the
    # reader starts the next one (same or other container); W resumes on the newer transaction.  Afterwards both
    # writers help a parked reader again, so that whatever they kept from the first round is used.
    for c1, c2, cw in ((1, 0, 0), (0, 0, 0), (1, 1, 0), (0, 1, 0)):     # reader's first / second load, W's container
        cv = c1
        rd = [{"op": "wait", "t": 0}] + warm
        for (c, g) in ((c1, 16), (c2, 17), (cw, 18), (cv, 19)):
            rd += [{"op": "load", "c": c, "g": g}, {"op": "deref_g", "g": g}, {"op": "drop_g", "g": g}]
        ph = {"threads": [[{"op": "new", "c": 0, "v": new()}, {"op": "new", "c": 1, "v": new()}], rd,
                          [{"op": "wait", "t": 0}] + warm2 + [{"op": "store", "c": cw, "v": new()}, {"op": "store", "c": cw, "v": new()}],
                          [{"op": "wait", "t": 0}, {"op": "load", "c": 0, "g": 62}, {"op": "drop_g", "g": 62},
                           {"op": "store", "c": cv, "v": new()}, {"op": "store", "c": cv, "v": new()}]],
              "strategy": "nofast", "reuse": "never"}
        for k in range(1, 13):
            for v_runs in (True, False):
                segs = [[1, "st.%d.*.load" % c1, 1], [2, "ctrl.0.*.load", 1], [2, "#%d" % (k - 1), 1]]
                if v_runs:
                    segs += [[3, "inv", 4]]                      # V: warm-up and its first store
                segs += [[1, "st.%d.*.load" % c2, 2 if c1 == c2 else 1], [2, "inv", 1], [1, "st.%d.*.load" % cw, 3 if c1 == c2 == cw else (2 if cw in (c1, c2) else 1)],
                         [2, "", 1], [1, "st.%d.*.load" % cv, 1], [3, "", 1], [1, "", 1]]
                jobs.append({"fam": "until:help-collision", "prog": ph, "sched": {"kind": "until", "segs": segs}})
    # three threads: A is stopped at every point of its operations while B and C each complete theirs (both orders);
    # thorough: B is stopped inside its own operation as well (A k1 | B k2 | C all | B rest | A rest)
    def prog3(a, b, c, strategy):
        return {"threads": [[{"op": "new", "c": 0, "v": new()}, {"op": "new", "c": 1, "v": new()}],
                            [{"op": "wait", "t": 0}] + a, [{"op": "wait", "t": 0}] + b, [{"op": "wait", "t": 0}] + c],
                "strategy": strategy, "reuse": "never"}
    warm3 = [{"op": "load", "c": 0, "g": 62}, {"op": "drop_g", "g": 62}]
    ld1 = [{"op": "load", "c": 1, "g": 17}, {"op": "deref_g", "g": 17}, {"op": "drop_g", "g": 17}]
    ld1c = [{"op": "load", "c": 1, "g": 19}, {"op": "deref_g", "g": 19}, {"op": "drop_g", "g": 19}]    # (own register: threads B and C overlap)
    ldc = [{"op": "load", "c": 0, "g": 20}, {"op": "deref_g", "g": 20}, {"op": "drop_g", "g": 20}]
    st1 = [{"op": "store", "c": 1, "v": new()}]
    sw1 = [{"op": "swap", "c": 1, "v": new(), "h": 36}, {"op": "deref_h", "h": 36}]
    trio = [("st|ld|st", warm + st, warm2 + ld, warm3 + st, 56), ("st|ld|ld1", warm + st, warm2 + ld + ld1, warm3 + ld1c, 56),
            ("ld,ld1|st|st1", warm + ld + ld1, warm2 + st, warm3 + st1, 44), ("rcu|st|ld", warm + rcu, warm2 + st, warm3 + ldc, 60),
            ("cas|st|st", warm + cas, warm2 + st, warm3 + st, 70), ("st|sw1|ld,ld1", warm + st, warm2 + sw1, warm3 + ldc + ld1c, 56)]
    for name, a, b, c, ka in trio:
        for strat in ("nofast", "default"):
            p = prog3(a, b, c, strat)
            for k1 in range(8, ka):
                for first, second in ((2, 3), (3, 2)):
                    jobs.append({"fam": "sandwich:3t:" + name, "prog": p,
                                 "sched": {"kind": "segs", "segs": [[1, k1], [first, 9999], [second, 9999], [1, 9999]]}})
                if tier != "quick" and strat == "nofast":
                    for k2 in range(10, 50, 2):
                        jobs.append({"fam": "sandwich3:3t:" + name, "prog": p,
                                     "sched": {"kind": "segs", "segs": [[1, k1], [2, k2], [3, 9999], [2, 9999], [1, 9999]]}})
    # a full cycle of the generation counter while a writer is stopped inside `help` (C13: the node must have been
    # given up at the wrap, otherwise the writer's stale exchange fits the same generation a cycle later): the reader's
    # first fallback load (generation g) is seen by the writer, which is stopped k steps into its walk; the reader
    # completes, its counter is preset so that it wraps on the next load, and it is stopped inside the load after that
    # (generation g again, other container); the writer resumes
    for back in (1, 2):
        rd = [{"op": "wait", "t": 0}, {"op": "load", "c": 0, "g": 16}, {"op": "drop_g", "g": 16}, {"op": "set_gen", "back": back}]
        for i in range(back + 1):
            rd += [{"op": "load", "c": 1, "g": 17 + i}, {"op": "deref_g", "g": 17 + i}, {"op": "drop_g", "g": 17 + i}]
        pw = {"threads": [[{"op": "new", "c": 0, "v": new()}, {"op": "new", "c": 1, "v": new()}], rd,
                          [{"op": "wait", "t": 0}] + warm2 + [{"op": "store", "c": 0, "v": new()}]],
              "strategy": "nofast", "reuse": "never"}
        for k in range(0, 14):
            jobs.append({"fam": "until:wrap-cycle", "prog": pw, "sched": {"kind": "until", "segs": [
                [1, "st.0.*.load", 1], [2, "ctrl.0.*.load", 1], [2, "#%d" % k, 1], [1, "st.1.*.load", back + 1], [2, "", 1], [1, "", 1]]}})
    # panicking destructors at the places where the LIBRARY drops a value on behalf of a reading operation (C18): the
    # stored value's destructor panics and the container is its only owner; a reader / a rejected compare_and_swap is
    # stopped at every point, a store completes (helping the reader, paying its debt), the reader resumes and releases
    # the last reference inside the library
    casn = [{"op": "cas", "c": 0, "cur": "null", "v": new(), "g": 35}, {"op": "deref_g", "g": 35}, {"op": "drop_g", "g": 35}]
    lfd = [{"op": "load_full", "c": 0, "h": 16}, {"op": "drop_h", "h": 16}]
    for name, a, strat, ka in (("casnull/st/pd/nofast", casn, "nofast", 40), ("casnull/st/pd", casn, "default", 36),
                               ("lf/st/pd/nofast", lfd, "nofast", 30), ("rcu/st/pd/nofast", rcu, "nofast", 50), ("rcu/st/pd", rcu, "default", 44),
                               ("ld/st/pd", ld, "default", 26), ("ld/st/pd/nofast", ld, "nofast", 30)):
        p = prog(warm + a, warm2 + st, strat, reuse="never", pd=True)
        for k1 in range(8, ka):
            jobs.append({"fam": "sandwich:pd:" + name, "prog": p, "sched": {"kind": "segs", "segs": [[1, k1], [2, 9999], [1, 9999]]}})
    # a destructor panics inside a writer's walk over the debts (the history of finding F5) while a guard on the displaced
    # value sits in a node the walk has not reached yet: whatever the unwinding does, that guard must stay valid.
    # H takes a guard on A (oldest node, a real debt) and is parked; R (its slots filled by guards of the other container)
    # is stopped mid-fallback; W1 stores B (panicking destructor), prepares the hand-over and is stopped before its exchange
    # on R's control; R confirms on its own and finishes; W3 replaces B (W1's replacement is now B's last reference); W1
    # resumes: its exchange fails, B is destroyed, the destructor panics, the walk is aborted before H's node.
    pf = {"threads": [[{"op": "new", "c": 0, "v": new()}, {"op": "new", "c": 1, "v": new()}],
                      [{"op": "wait", "t": 0}, {"op": "load", "c": 0, "g": 40}, {"op": "load", "c": 0, "g": 41}, {"op": "deref_g", "g": 40},
                       {"op": "drop_g", "g": 40}, {"op": "deref_g", "g": 41}, {"op": "drop_g", "g": 41}],
                      [{"op": "wait", "t": 0}, {"op": "pad", "c": 1, "free": 0, "base": 300}, {"op": "load", "c": 0, "g": 16},
                       {"op": "deref_g", "g": 16}, {"op": "drop_g", "g": 16}],
                      [{"op": "wait", "t": 0}, {"op": "store", "c": 0, "v": new(True)}],
                      [{"op": "wait", "t": 0}, {"op": "store", "c": 0, "v": new()}]],
          "strategy": "default", "reuse": "never"}
    for k in (0, 1, 2):
        jobs.append({"fam": "until:panic-in-walk", "prog": pf, "sched": {"kind": "until", "segs": [
            [1, "inv", 2], [2, "st.0.*.load", 2], [3, "ctrl.1.*.cas", 1], [3, "#%d" % k, 1], [2, "inv", 10], [4, "", 1], [3, "", 1], [2, "", 1], [1, "", 1]]}})
    # generation wrap inside a writer's NESTED load (the writer helps a reader that is mid-fallback): W claims its node
    # first and presets its counter, R is stopped at every step of its load, W stores
    for back in (1, 2):
        for strat in ("nofast",):
            w = warm2 + [{"op": "set_gen", "back": back}, {"op": "store", "c": 0, "v": new()}, {"op": "store", "c": 0, "v": new()}]
            p = prog(ld + ld, w, strat)
            for kw in range(9, 19):
                for k1 in range(0, 30):
                    jobs.append({"fam": "sandwich:wrap-nested", "prog": p,
                                 "sched": {"kind": "segs", "segs": [[2, kw], [1, k1], [2, 9999], [1, 9999]]}})
    for name, a, b, strat, ka, kb in (pairs_q if tier == "quick" else pairs_t):
        p = prog(a, b, strat)
        lo_a, lo_b = (8, 8) if a[:2] == warm else (0, 0)
        for k1 in range(lo_a, ka):
            for k2 in range(1, kb if kb > 2 else 1):
                jobs.append({"fam": "sandwich:" + name, "prog": p, "sched": {"kind": "segs", "segs": [[1, k1], [2, k2], [1, 9999], [2, 9999]]}})
        if kb <= 2:
            # B only ever runs to completion: A k1 | B all | A rest
            for k1 in range(lo_a, ka):
                jobs.append({"fam": "sandwich:" + name, "prog": p, "sched": {"kind": "segs", "segs": [[1, k1], [2, 9999], [1, 9999]]}})
            continue
        for k2 in range(lo_b, kb):
            for k1 in range(1, ka):
                jobs.append({"fam": "sandwich:" + name, "prog": p, "sched": {"kind": "segs", "segs": [[2, k2], [1, k1], [2, 9999], [1, 9999]]}})
    for i, j in enumerate(jobs):
        j["id"] = start_id + i
    return jobs

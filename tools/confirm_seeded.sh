#!/bin/sh
# confirm_seeded.sh ID...: in a scratch worktree: (1) the crate's tests pass with the seeded change, (2) the demonstration fails
# with it and (3) passes without it. Writes seeded/ID/confirm.txt. Removes the worktree afterwards.
for id in "$@"; do
  S=/verif/seeded/$id
  W=/tmp/cf_$id
  out=$S/confirm.txt
  rm -rf $W; git -C /repo worktree add --detach $W HEAD -q || continue
  cd $W
  echo "# $(date -u +%FT%TZ) confirmation of seeded/$id in a scratch worktree of /repo HEAD $(git rev-parse --short HEAD)" > $out
  if ! git apply $S/patch.diff; then echo "patch: does NOT apply" >> $out; cd /; git -C /repo worktree remove --force $W; continue; fi
  echo "patch: applies" >> $out
  FEAT="--features weak,serde,internal-test-strategies"
  if cargo test --offline $FEAT > $W/suite.log 2>&1; then echo "suite with change: PASS ($(grep -c 'test result: ok' $W/suite.log) result lines ok)" >> $out; else echo "suite with change: FAIL" >> $out; grep -E "FAILED|panicked|error" $W/suite.log | head -5 >> $out; fi
  demo=$S/demo/demo_seeded.rs; [ -f $demo ] || demo=$(ls $S/demo/*.rs 2>/dev/null | head -1)
  if [ -n "$demo" ]; then
    cp $demo tests/demo_seeded.rs
    FLAGS=""; grep -q arc_swap_verif $demo && FLAGS="--cfg arc_swap_verif"
    run() { RUSTFLAGS="$FLAGS" timeout 900 cargo test --offline $FEAT --test demo_seeded -- --test-threads=1 > $W/demo_$1.log 2>&1; echo $?; }
    if [ -z "$NO_MIRI" ] && grep -qi miri $S/demo/README.txt 2>/dev/null; then
      run() { MIRIFLAGS="-Zmiri-permissive-provenance" timeout 1500 cargo +nightly miri test --offline --test demo_seeded > $W/demo_$1.log 2>&1; echo $?; }
      echo "demo runner: cargo +nightly miri test" >> $out
    fi
    rc=$(run with); echo "demo with change: exit $rc ($( [ "$rc" != 0 ] && echo FAILS as required || echo passes - NOT as required))" >> $out
    grep -E "panicked at|Undefined Behavior|test result" $W/demo_with.log | head -4 | cut -c1-200 >> $out
    git apply -R $S/patch.diff
    rc=$(run without); echo "demo without change: exit $rc ($( [ "$rc" = 0 ] && echo PASSES as required || echo fails - NOT as required))" >> $out
    grep -E "test result" $W/demo_without.log | head -2 >> $out
  else
    echo "demo: no .rs demonstration file" >> $out
  fi
  cd /; git -C /repo worktree remove --force $W
  echo "== $id"; cat $out
done

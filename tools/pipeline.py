"""Orchestration: build harness, run TLC model checking, run executions, validate traces, verdicts."""
import concurrent.futures as cf
import hashlib
import json
import os
import re
import shutil
import subprocess
import sys
import time

import gen
import props

V = os.path.dirname(os.path.dirname(os.path.abspath(__file__)))
REPO = os.environ.get("VERIF_REPO", "/repo")
CACHE = os.path.join(V, ".cache")
SPEC = os.path.join(V, "spec")
ASV = os.path.join(V, "harness", "target", "release", "asv")
REPLAYS = os.path.join(V, "replays")
NPROC = int(os.environ.get("VERIF_JOBS", "8"))


def log(*a):
    print("[check]", *a, file=sys.stderr, flush=True)


class ToolError(Exception):
    pass


# ----------------------------------------------------------------------------- build / keys

def sh(cmd, cwd=None, timeout=None, env=None):
    e = dict(os.environ)
    if env:
        e.update(env)
    return subprocess.run(cmd, cwd=cwd, timeout=timeout, env=e, stdout=subprocess.PIPE, stderr=subprocess.STDOUT, text=True)


def tree_key():
    h = hashlib.sha256()
    roots = [os.path.join(REPO, "src"), os.path.join(V, "spec"), os.path.join(V, "tools"), os.path.join(V, "harness", "src")]
    files = [os.path.join(REPO, "Cargo.toml"), os.path.join(V, "KNOWN_FINDINGS.txt")]
    for r in roots:
        for d, _, fs in os.walk(r):
            if "__pycache__" in d or "/states" in d:
                continue
            for f in fs:
                # (temporary configurations written by stages that may be running concurrently are not part of the tree)
                if f.startswith("_") or f.startswith("SeqGen_run_") or f.startswith("MC_Laws"):
                    continue
                if f.endswith((".rs", ".tla", ".cfg", ".py", ".toml")):
                    files.append(os.path.join(d, f))
    for f in sorted(files):
        if os.path.exists(f):
            h.update(f.encode())
            h.update(open(f, "rb").read())
    return h.hexdigest()[:16]


def build():
    t0 = time.time()
    r = sh(["cargo", "build", "--release", "--offline"], cwd=os.path.join(V, "harness"), timeout=1200,
           env={"CARGO_NET_OFFLINE": "true"})
    if r.returncode != 0:
        sys.stderr.write(r.stdout[-4000:])
        raise ToolError("harness build failed")
    log("harness built in %.1fs" % (time.time() - t0))


# ----------------------------------------------------------------------------- TLC

TLC_ENV = {"JAVA_TOOL_OPTIONS": "-Xss1g -XX:+UseParallelGC"}


def tlc(spec, cfg, workdir, env=None, workers=1, timeout=3600, extra=(), heap="3g"):
    import uuid
    md = os.path.join(workdir, "md_%s_%s" % (os.path.basename(cfg), uuid.uuid4().hex[:10]))
    e = dict(TLC_ENV)
    os.makedirs(md, exist_ok=True)
    # TLC unpacks its standard modules into java.io.tmpdir: keep that inside the (removed) metadir, not in /tmp
    e["JAVA_TOOL_OPTIONS"] = e["JAVA_TOOL_OPTIONS"] + " -Xmx" + heap + " -Djava.io.tmpdir=" + md
    if env:
        e.update(env)
    cmd = ["tlc", "-workers", str(workers), "-metadir", md, "-cleanup", "-noGenerateSpecTE", "-config", cfg] + list(extra) + [spec]
    t0 = time.time()
    try:
        r = sh(cmd, cwd=SPEC, timeout=timeout, env=e)
        out = r.stdout
        rc = r.returncode
    except subprocess.TimeoutExpired as ex:
        out = (ex.stdout or b"").decode() if isinstance(ex.stdout, bytes) else (ex.stdout or "")
        rc = -9
    shutil.rmtree(md, ignore_errors=True)
    return rc, out, time.time() - t0


def join_tuples(out):
    """PrintT of long tuples is wrapped over lines: join them."""
    res, buf = [], None
    for line in out.splitlines():
        s = line.strip()
        if buf is not None:
            buf += " " + s
            if buf.count("<<") <= buf.count(">>"):
                res.append(buf)
                buf = None
            continue
        if s.startswith("<<"):
            if s.count("<<") <= s.count(">>") and s != "<<":
                res.append(s)
            else:
                buf = s
        else:
            res.append(line)
    return res


def mc_stats(out):
    m = re.search(r"(\d+) states generated, (\d+) distinct states found", out)
    states = int(m.group(2)) if m else 0
    trans = int(m.group(1)) if m else 0
    return states, trans


# ----------------------------------------------------------------------------- executions

def run_chunk(jobs, path, atomics):
    """Run jobs through the harness; survive aborts/hangs of the code under test."""
    inp = path + ".in"
    out_all = open(path, "w")
    sched_all = open(path + ".sched", "w")
    todo = list(jobs)
    incidents = []
    finished_ok = 0
    while todo:
        with open(inp, "w") as f:
            for j in todo:
                f.write(json.dumps({"id": j["id"], "prog": j["prog"], "sched": j["sched"], "stale": j.get("stale", [])}) + "\n")
        tmp = path + ".part"
        try:
            r = subprocess.run([ASV, "run", "--in", inp, "--out", tmp, "--atomics", atomics],
                               stdout=subprocess.PIPE, stderr=subprocess.STDOUT, text=True, timeout=1800)
            rc, msg = r.returncode, r.stdout
        except subprocess.TimeoutExpired:
            rc, msg = 3, "timeout"
        lines = open(tmp).read().splitlines() if os.path.exists(tmp) else []
        scheds = open(tmp + ".sched").read().splitlines() if os.path.exists(tmp + ".sched") else []
        if rc == 0:
            out_all.write("\n".join(lines) + ("\n" if lines else ""))
            sched_all.write("\n".join(scheds) + ("\n" if scheds else ""))
            todo = []
        else:
            # everything up to the last complete execution is good; the one that began last died
            last_begin = max([i for i, l in enumerate(lines) if l.startswith('{"e":"begin"')] or [-1])
            ends = [i for i, l in enumerate(lines) if l.startswith('{"e":"end"')]
            done = len(ends)
            good = lines[: (ends[-1] + 1) if ends else 0]
            out_all.write("\n".join(good) + ("\n" if good else ""))
            sched_all.write("\n".join(scheds[:done]) + ("\n" if scheds[:done] else ""))
            if last_begin >= 0 and done < len(todo):
                dead = todo[done]
                kind = "hang" if rc == 3 else "abort"
                incidents.append((dead["id"], kind, msg[-300:]))
                finished_ok += done
                if len(incidents) >= 10 and finished_ok == 0:
                    raise ToolError("the harness dies on every execution from the start: %s" % msg[-500:])
                out_all.write(json.dumps({"e": "begin", "id": dead["id"], "x": -1}, separators=(",", ":")) + "\n")
                # what the abort handler of the harness managed to dump of the execution in flight (complete lines only)
                partial = [l for l in lines[last_begin + 1:] if l.startswith("{") and l.endswith("}") and '"e":"begin"' not in l and '"e":"end"' not in l]
                ok_partial = []
                for l in partial:
                    try:
                        json.loads(l)
                        ok_partial.append(l)
                    except ValueError:
                        break
                if ok_partial:
                    out_all.write("\n".join(ok_partial) + "\n")
                out_all.write(json.dumps({"e": "crash", "kind": kind, "t": -1}, separators=(",", ":")) + "\n")
                out_all.write(json.dumps({"e": "end", "id": dead["id"], "x": -1, "overrun": False,
                                          "info": {"segments": 0, "reached": 0, "missed": 0, "first_missed": -1, "solo_max": 0}},
                                         separators=(",", ":")) + "\n")
                sched_all.write(json.dumps({"id": dead["id"], "x": -1, "sched": []}) + "\n")
                todo = todo[done + 1:]
            else:
                raise ToolError("harness failed: rc=%s %s" % (rc, msg[-500:]))
    out_all.close()
    sched_all.close()
    for p in (inp, path + ".part", path + ".part.sched"):
        if os.path.exists(p):
            os.remove(p)
    return incidents


VIOL_RE = re.compile(r'<<\s*"TRACE_(\w+)_VIOLATION",\s*(\d+),\s*(\d+),\s*"([\w+]+)",\s*"(.*)"\s*>>')
DONE_RE = re.compile(r'<<\s*"TRACE_(\w+)_DONE",\s*(\d+),\s*(\d+),\s*(\d+)\s*>>')


def validate_chunk(path, spec, workdir, consts=None):
    rc, out, wall = tlc(spec + ".tla", spec + ".cfg", workdir, env={"TRACE": path}, timeout=3000)
    if spec == "Trace_Mem":
        with open(path + ".Trace_Mem.out", "w") as f:
            f.write("\n".join(l for l in out.splitlines() if "TRACE_MEM_ORD" in l or l.strip().startswith(("<<", '"')) or ">>" in l))
    lines = join_tuples(out)
    done = None
    viols = []
    for l in lines:
        m = DONE_RE.search(l)
        if m:
            done = (int(m.group(2)), int(m.group(3)), int(m.group(4)))
        m = VIOL_RE.search(l)
        if m:
            viols.append({"x": int(m.group(2)), "line": int(m.group(3)), "prop": m.group(4), "why": m.group(5)})
    if done is None or "Model checking completed. No error has been found." not in out:
        raise ToolError("trace validation did not complete for %s:\n%s" % (path, out[-3000:]))
    if done[2] != len(viols):
        raise ToolError("violation count mismatch in TLC output")
    return {"events": done[0], "execs": done[1], "viols": viols, "wall": wall}


def exec_index(path):
    """(job id, first line, last line) per execution of a trace file, in order."""
    idx = []
    with open(path) as f:
        for ln, line in enumerate(f, 1):
            if line.startswith('{"e":"begin"'):
                idx.append([json.loads(line)["id"], ln, ln])
            elif idx:
                idx[-1][2] = ln
    return idx


def run_and_validate(jobs, name, workdir, atomics="st", specs=("Trace_Abs",), nproc=NPROC):
    """Returns dict(execs, events, viols=[{id, prop, why, ev, spec}], incidents, files)."""
    os.makedirs(workdir, exist_ok=True)
    if not jobs:
        return {"execs": 0, "events": 0, "viols": [], "incidents": [], "files": []}
    # at most nproc chunks at a time; a chunk holds at most 12000 executions (the trace of a chunk is read into TLC as one value)
    n = max(1, min(max(nproc, (len(jobs) + 11999) // 12000), (len(jobs) + 199) // 200))
    chunks = [jobs[i::n] for i in range(n)]
    paths = [os.path.join(workdir, "%s.%d.ndjson" % (name, i)) for i in range(n)]
    t0 = time.time()
    with cf.ThreadPoolExecutor(max_workers=min(n, nproc)) as ex:
        inc = list(ex.map(lambda a: run_chunk(a[0], a[1], atomics), zip(chunks, paths)))
    t1 = time.time()
    res = {"execs": 0, "events": 0, "viols": [], "incidents": [i for l in inc for i in l], "files": paths, "run_s": t1 - t0}
    with cf.ThreadPoolExecutor(max_workers=min(n, nproc)) as ex:
        futs = {}
        for sp in specs:
            for p in paths:
                futs[ex.submit(validate_chunk, p, sp, workdir)] = (sp, p)
        for fu in cf.as_completed(futs):
            sp, p = futs[fu]
            r = fu.result()
            if sp == specs[0]:
                res["execs"] += r["execs"]
                res["events"] += r["events"]
            if r["viols"]:
                idx = exec_index(p)
                lines = open(p).read().splitlines()
                for v in r["viols"]:
                    jid = idx[v["x"] - 1][0]
                    first = idx[v["x"] - 1][1]
                    evs = [json.loads(l) for l in lines[first - 1:v["line"]] if '"e":"at"' not in l]
                    v2 = {"id": jid, "prop": v["prop"], "why": v["why"], "spec": sp, "evs": evs,
                          "ev": json.loads(lines[v["line"] - 1]), "file": p, "line": v["line"], "x": v["x"]}
                    res["viols"].append(v2)
    res["validate_s"] = time.time() - t1
    return res


ORD_RE = re.compile(r'<<\s*"TRACE_MEM_ORD",\s*"([^"]*)",\s*"(\w+)",\s*"(\w+)",\s*"(\w+)",\s*"([\w-]+)"\s*>>')


def collect_ords(files, workdir):
    """site -> [kind, ordering, failure ordering] as extracted by Trace_Mem (kept in the validation output)."""
    ords = {}
    for p in files:
        o = p + ".Trace_Mem.out"
        if os.path.exists(o):
            for l in join_tuples(open(o).read()):
                m = ORD_RE.search(l)
                if m:
                    ords["%s %s %s" % (m.group(1), m.group(2), m.group(3))] = [m.group(4), m.group(5)]
    return ords


# ----------------------------------------------------------------------------- known findings

def known_findings():
    p = os.path.join(V, "KNOWN_FINDINGS.txt")
    res = []
    if os.path.exists(p):
        for line in open(p):
            line = line.strip()
            m = re.match(r"finding:\s+property=(\w+)\s+key=(\S+)\s*(.*)", line)
            if m:
                res.append({"prop": m.group(1), "key": m.group(2), "text": m.group(3)})
    return res


def viol_key(v):
    """A stable key of a violation: property + failing clause + the call site / history shape."""
    ev = v.get("ev", {})
    bits = [v["prop"], re.sub(r"[^a-z0-9]+", "-", v["why"].lower())[:60]]
    if ev.get("e") == "panic":
        bits.append(re.sub(r"[^a-z0-9]+", "-", ev.get("msg", "").lower())[:50])
    if v.get("ctx"):
        bits.append(v["ctx"])
    return "/".join(bits)


# ----------------------------------------------------------------------------- replay files

def sched_of(path, jid):
    with open(path + ".sched") as f:
        for line in f:
            if ('"id":%d,' % jid) in line or ('"id":%d}' % jid) in line:
                d = json.loads(line)
                if d["id"] == jid:
                    return d["sched"]
    return []


def write_replay(v, job):
    os.makedirs(REPLAYS, exist_ok=True)
    sched = sched_of(v["file"], v["id"])
    rj = {"id": 0, "fam": job.get("fam"), "prog": job["prog"], "sched": {"kind": "replay", "seq": sched},
          "stale": job.get("stale", []), "orig_sched": job["sched"],
          "property": v["prop"], "why": v["why"], "spec": v["spec"], "event": v["ev"], "key": viol_key(v)}
    h = hashlib.sha256(json.dumps([rj["prog"], rj["sched"]], sort_keys=True).encode()).hexdigest()[:12]
    p = os.path.join(REPLAYS, "%s-%s.json" % (v["prop"].replace("+", "_"), h))
    with open(p, "w") as f:
        json.dump(rj, f)
    return p


def replay(pid, path):
    build()
    rj = json.load(open(path))
    if not (isinstance(rj, dict) and "prog" in rj):
        # not an execution of the harness (a TLC counterexample of a weak-memory model, a law / trait / serde / cache-view row):
        # re-run the property's own stages from scratch on the current tree and report what is found again
        import sys
        stages = props.EXTRA.get(pid, [])
        stages = stages if isinstance(stages, list) else [stages]
        key = "replay%d" % os.getpid()
        found = []
        try:
            for st in stages:
                r = st("quick", int(os.environ.get("VERIF_SEED", "0")), key, sys.modules[__name__])
                found += [v for v in r["viols"] if pid in v["prop"].split("+")]
        finally:
            for d in os.listdir(CACHE):
                if d.startswith(key):
                    shutil.rmtree(os.path.join(CACHE, d), ignore_errors=True)
        for v in found[:5]:
            print("re-checked: property=%s %s" % (v["prop"], v["why"][:200]))
        if found:
            print("VIOLATION property=%s replay=%s" % (pid, path))
            return 1
        print("replay: property %s holds (the stage that produced %s finds nothing on the current tree)" % (pid, os.path.basename(path)))
        return 0
    wd = os.path.join(CACHE, "replay_%d" % os.getpid())
    try:
        specs = ("Trace_Abs", "Trace_Mem") if os.path.exists(os.path.join(SPEC, "Trace_Mem.tla")) else ("Trace_Abs",)
        res = run_and_validate([rj], "replay", wd, atomics="all", specs=specs, nproc=1)
        hit = [v for v in res["viols"] if pid in v["prop"].split("+")]
        for v in res["viols"]:
            print("replayed: property=%s %s (%s)" % (v["prop"], v["why"], json.dumps(v["ev"])))
        if hit:
            print("VIOLATION property=%s replay=%s" % (pid, path))
            return 1
        print("replay: property %s holds on this execution" % pid)
        return 0
    finally:
        shutil.rmtree(wd, ignore_errors=True)


# ----------------------------------------------------------------------------- the check

def non_trivial_all(files):
    """One pass over the traces: distinct executions and, per property, the non-trivial ones (rules in props.NONTRIVIAL)."""
    seen = set()
    cnt = {pid: 0 for pid in props.NONTRIVIAL}
    samples = {pid: [] for pid in props.NONTRIVIAL}
    for p in files:
        cur = []
        with open(p) as f:
            for line in f:
                if line.startswith('{"e":"begin"'):
                    cur = []
                    continue
                if line.startswith('{"e":"end"'):
                    key = hashlib.md5("".join(cur).encode()).hexdigest()
                    if key not in seen:
                        seen.add(key)
                        evs = [json.loads(l) for l in cur]
                        for pid, rule in props.NONTRIVIAL.items():
                            try:
                                ok = rule[1](evs)
                            except Exception:
                                ok = False
                            if ok:
                                cnt[pid] += 1
                                if len(samples[pid]) < 1:
                                    samples[pid].append([e for e in evs if e["e"] not in ("put", "use")][:40])
                    continue
                if '"e":"at"' in line or '"e":"put"' in line or '"e":"use"' in line:
                    continue
                cur.append(line)
    return {"distinct": len(seen), "nontrivial": cnt, "samples": samples}


def non_trivial_stats(summ, pid):
    nt = summ.get("nontrivial", {})
    key = pid if pid in nt.get("nontrivial", {}) else "default"
    return (nt.get("distinct", 0), nt.get("nontrivial", {}).get(key, 0), props.NONTRIVIAL.get(key, ("", None))[0],
            nt.get("samples", {}).get(key, []))


def conc_stage(tier, seed, key):
    """The shared concurrent pipeline: all families, validated against Trace_Abs. Cached per tree."""
    wd = os.path.join(CACHE, "%s-%s-%d" % (key, tier, seed))
    marker = os.path.join(wd, "conc.json")
    if os.path.exists(marker):
        log("conc stage: cached (%s)" % wd)
        return json.load(open(marker)), wd
    os.makedirs(wd, exist_ok=True)
    plan = props.CONC_PLAN[tier]
    jobs = []
    nid = 0
    for fam, n in plan:
        js = gen.gen([fam], n, seed * 7919 + hash_str(fam), start_id=nid)
        nid += len(js)
        jobs += js
    jobs += gen.directed(start_id=nid, seed=seed, tier=tier)
    jobs += gen.sandwich(tier)
    import cover
    try:
        cov_jobs, cov_stats = cover.jobs(tier, seed, wd)
    except RuntimeError as e:
        raise ToolError(str(e))
    jobs += cov_jobs
    for i, j in enumerate(jobs):
        j["id"] = i
    with open(os.path.join(wd, "jobs.ndjson"), "w") as f:
        for j in jobs:
            f.write(json.dumps(j) + "\n")
    t0 = time.time()
    res = run_and_validate(jobs, "conc", wd, atomics="st", specs=("Trace_Abs",))
    log("conc stage: %d executions, %d events, run %.1fs, validate %.1fs, %d violations" %
        (res["execs"], res["events"], res["run_s"], res["validate_s"], len(res["viols"])))
    # replay files for violations (one per distinct key and property, at most 5 each)
    per_key = {}
    out_v = []
    for v in sorted(res["viols"], key=lambda v: v["id"]):
        job = jobs[v["id"]]
        v["fam"] = job.get("fam")
        v["ctx"] = props.context_of(v, job)
        # C13: "after such a wrap-around all other guarantees continue to hold" - any clause that fails in an execution
        # in which a thread's generation counter was preset next to the wrap also counts for C13
        if "genwrap" in (v["ctx"] or "").split(",") and "C13" not in v["prop"].split("+"):
            v["prop"] = v["prop"] + "+C13"
        k = viol_key(v)
        per_key.setdefault(k, 0)
        per_key[k] += 1
        if per_key[k] <= 3:
            v["replay"] = write_replay(v, job)
        v["key"] = k
        out_v.append({k2: v[k2] for k2 in ("id", "prop", "why", "spec", "ev", "fam", "key", "ctx") if k2 in v} | ({"replay": v["replay"]} if "replay" in v else {}))
    for (jid, kind, msg) in res["incidents"]:
        log("incident: job %d %s %s" % (jid, kind, msg))
    reached = missed = aligned = 0
    for p in res["files"]:
        for line in open(p):
            if line.startswith('{"e":"end"') and '"segments"' in line:
                d = json.loads(line)["info"]
                reached += d["reached"]
                missed += d["missed"]
                aligned += d["missed"] == 0
    # outcome conformance: in an aligned replay every operation of the real crate must return what the model returned
    by_id = {j["id"]: j for j in jobs if "model_rets" in j}
    same = differ = 0
    for p in res["files"]:
        cur, got = None, []
        for line in open(p):
            if line.startswith('{"e":"begin"'):
                cur, got = json.loads(line)["id"], []
            elif cur in by_id and '"e":"ret"' in line:
                e = json.loads(line)
                if e["op"] in ("load", "load_full", "swap", "rcu", "cache_new", "cache_load") and 1 <= e["t"] <= 3:
                    got.append([e["t"], e["op"], e["v"]])
            elif line.startswith('{"e":"end"') and cur in by_id:
                if json.loads(line)["info"]["missed"] == 0:
                    want = by_id[cur]["model_rets"]
                    def per_thread(rs):
                        # object ids are compared up to renaming (two threads may allocate in either order between two accesses)
                        ren, out = {}, {}
                        for t in (1, 2, 3):
                            out[t] = []
                            for x in rs:
                                if x[0] == t:
                                    out[t].append([x[1], ren.setdefault(x[2], len(ren))])
                        return out
                    if per_thread(got) == per_thread(want):
                        same += 1
                    else:
                        differ += 1
                cur = None
    cov_stats.update({"segments_reached": reached, "segments_missed": missed, "behaviours_fully_aligned": aligned,
                      "aligned_behaviours_same_results_as_model": same, "aligned_behaviours_different_results": differ})
    nontrivial = non_trivial_all(res["files"])
    summary = {"execs": res["execs"], "events": res["events"], "viols": out_v, "files": res["files"], "tlc_replay": cov_stats, "nontrivial": nontrivial,
               "wall": time.time() - t0, "fams": {f: n for f, n in plan}, "incidents": res["incidents"]}
    with open(marker, "w") as f:
        json.dump(summary, f)
    return summary, wd


def hash_str(s):
    return int(hashlib.md5(s.encode()).hexdigest()[:6], 16)


def mc_stage(pid, tier, seed, key):
    """TLC model checking of the configurations registered for the property. Cached per tree."""
    cfgs = props.MC.get(pid, {}).get(tier, props.MC.get(pid, {}).get("quick", []))
    results = []
    wd = os.path.join(CACHE, "%s-mc" % key)
    os.makedirs(wd, exist_ok=True)
    for c in cfgs:
        spec, cfg = c["spec"], c["cfg"]
        marker = os.path.join(wd, cfg + ".json")
        if os.path.exists(marker):
            results.append(json.load(open(marker)))
            continue
        sim = c.get("simulate", 0)
        extra = ["-simulate", "num=%d" % sim, "-depth", "400", "-seed", str(seed + 11)] if sim else (["-coverage", "1"] if c.get("coverage", False) else [])
        rc, out, wall = tlc(spec, cfg, wd, workers=c.get("workers", 8), timeout=c.get("timeout", 1500), extra=extra, heap=c.get("heap", "12g"))
        states, trans = mc_stats(out)
        ok = "Model checking completed. No error has been found." in out
        if sim:
            m2 = re.search(r"The number of states generated: (\d+)", out)
            states = trans = int(m2.group(1)) if m2 else 0
            ok = ("is violated" not in out) and ("Error:" not in out) and states > 0 and rc != -9
        r = {"cfg": cfg, "spec": spec, "ok": ok, "simulated_behaviours": sim, "states": states, "transitions": trans, "wall": wall, "rc": rc,
             "expect": c.get("expect", "ok"), "tail": out[-1500:] if not ok else ""}
        m = re.search(r"Invariant (\w+) is violated", out) or re.search(r"Temporal property (\w+) was violated", out)
        if m:
            r["violated"] = m.group(1)
        if rc == -9:
            r["timeout"] = True
        log("mc %s: %s states=%d wall=%.1fs" % (cfg, "ok" if ok else ("violated " + r.get("violated", "?")), states, wall))
        with open(marker, "w") as f:
            json.dump(r, f)
        results.append(r)
    return results


def check(pid, tier, seed):
    t0 = time.time()
    if pid not in props.PROPS:
        print("unknown or unclaimed property", pid)
        return 2
    try:
        build()
        key = tree_key()
        spec = props.PROPS[pid]
        viols, known_hits = [], []
        cov = {}
        mc = mc_stage(pid, tier, seed, key)
        states = sum(r["states"] for r in mc)
        trans = sum(r["transitions"] for r in mc)
        extra_states = 0
        for r in mc:
            if r["expect"] == "ok" and not r["ok"]:
                if r.get("timeout"):
                    raise ToolError("model checking timed out: " + r["cfg"])
                raise ToolError("model checking of the design failed (%s): %s\n%s" % (r["cfg"], r.get("violated"), r["tail"]))
            if r["expect"] != "ok" and r.get("violated") != r["expect"]:
                raise ToolError("negative control %s did not fail as expected" % r["cfg"])
        traces = 0
        samples = []
        nt = (0, 0, "", [])
        if spec.get("conc", True):
            summ, wd = conc_stage(tier, seed, key)
            traces = summ["execs"]
            nt = non_trivial_stats(summ, pid)
            for v in summ["viols"]:
                if pid in v["prop"].split("+"):
                    viols.append(v)
                elif v["prop"] == "HARNESS":
                    raise ToolError("harness/oracle inconsistency: %s %s" % (v["why"], json.dumps(v["ev"])))
            cov["families"] = summ["fams"]
            cov["tlc_behaviours_replayed_on_impl"] = summ.get("tlc_replay", {})
            cov["events_validated"] = summ["events"]
        extras = props.EXTRA.get(pid) or []
        if not isinstance(extras, (list, tuple)):
            extras = [extras]
        for extra in extras:
            er = extra(tier, seed, key, sys.modules[__name__])
            viols += [v for v in er.get("viols", []) if pid in v["prop"].split("+")]
            cov.update({k: v for k, v in er.get("coverage", {}).items() if k not in ("states", "transitions")})
            if "samples" in er and er["samples"] and not spec.get("conc", True):
                cov["samples"] = er["samples"][:3]
            states += er.get("coverage", {}).get("states", 0)
            trans += er.get("coverage", {}).get("transitions", 0)
            traces += er.get("traces", 0)
            if er.get("samples"):
                samples += er["samples"]
        kf = known_findings()
        real = []
        for v in viols:
            hit = [k for k in kf if k["prop"] in v["prop"].split("+") and re.search(k["key"], v.get("key", ""))]
            if hit:
                known_hits.append((hit[0], v))
            else:
                real.append(v)
        printed = set()
        for k, v in known_hits:
            if k["key"] not in printed:
                printed.add(k["key"])
                print("KNOWN-FINDING: property=%s %s (key=%s)" % (pid, k["text"] or v["why"], k["key"]))
        wall = time.time() - t0
        level = spec["level"] if (mc or states > 0) or spec["level"] not in ("model_checking",) else "exploration"
        coverage = {
            "states": states, "transitions": trans, "traces_validated_against_impl": traces,
            "evaluations": max(1, traces), "distinct_nontrivial": nt[1], "distinct_executions": nt[0],
            "rule": nt[2] or spec.get("rule", ""),
            "samples": (samples + nt[3])[:3] or [{"note": "no sample"}],
            "mc_runs": [{k: r.get(k) for k in ("cfg", "states", "transitions", "wall", "ok", "expect", "simulated_behaviours")} for r in mc],
            "known_finding_hits": len(known_hits), "exhaustive": False,
        }
        coverage.update(cov)
        ev = {"property_id": pid, "tier": tier, "seed": seed, "level": level, "coverage": coverage,
              "assumptions": spec.get("assumptions", []), "wall_s": round(wall, 2), "violations": len(real)}
        os.makedirs(os.path.join(V, "evidence"), exist_ok=True)
        with open(os.path.join(V, "evidence", pid + ".json"), "w") as f:
            json.dump(ev, f, indent=1)
        if real:
            seen = set()
            for v in real:
                if v.get("replay") and v["key"] not in seen:
                    seen.add(v["key"])
                    print("VIOLATION property=%s replay=%s  # %s" % (pid, v["replay"], v["why"]))
            if not seen:
                print("VIOLATION property=%s replay=%s" % (pid, real[0].get("replay", "none")))
            return 1
        print("OK property=%s tier=%s traces=%d states=%d wall=%.1fs" % (pid, tier, traces, states, wall))
        return 0
    except ToolError as e:
        print("TOOL-ERROR:", e)
        return 2
    except subprocess.TimeoutExpired as e:
        print("TOOL-ERROR: timeout", e)
        return 2


def setup():
    try:
        build()
        for f in sorted(os.listdir(SPEC)):
            if f.endswith(".tla"):
                r = sh(["tla-sany", f], cwd=SPEC, timeout=300)
                if r.returncode != 0 or "Semantic error" in r.stdout or "Parse Error" in r.stdout or "*** Errors" in r.stdout:
                    sys.stderr.write(r.stdout[-3000:])
                    raise ToolError("SANY rejects " + f)
        return selftest()
    except ToolError as e:
        print("TOOL-ERROR:", e)
        return 2


def selftest():
    import selftest as st
    return st.run(sys.modules[__name__])

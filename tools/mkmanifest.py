#!/usr/bin/env python3
"""Regenerate /verif/MANIFEST.json from tools/props.py (claimed properties) and properties.jsonl."""
import json, os, sys
V = os.path.dirname(os.path.dirname(os.path.abspath(__file__)))
sys.path.insert(0, os.path.join(V, "tools"))
import props

allp = [json.loads(l) for l in open(os.path.join(V, "properties.jsonl"))]
hooks_commit = "015152a"
TEXT = props.MANIFEST_TEXT
checks = []
for p in allp:
    pid = p["id"]
    if pid not in props.PROPS:
        continue
    t = TEXT.get(pid, TEXT["default"])
    checks.append({
        "property_id": pid,
        "quick_cmd": "./check %s" % pid,
        "thorough_cmd": "./check %s --tier thorough" % pid,
        "evidence_file": "/verif/evidence/%s.json" % pid,
        "replay_cmd_template": "./check %s --replay {path}" % pid,
        "engine": "tla-conformance",
        "level_claimed": {"category": props.PROPS[pid]["level"], "text": t["text"], "design_ref": t.get("ref", "DESIGN.md section 6")},
        "level_note": t.get("level_note", "TLC + SANY, the harness scheduler and VPtr, the value abstraction of the tracer; SC interleavings; bounds as in evidence"),
        "technique": t.get("technique", "TLA+ specification (ArcSwapAbs/ArcSwapImpl) model-checked with TLC + TLC trace validation of real executions"),
    })
na = [{"property_id": p["id"], "reason": props.NOT_APPLICABLE.get(p["id"], "check not built yet (see DESIGN.md section 10)")}
      for p in allp if p["id"] not in props.PROPS]
m = {
    "version": 1,
    "setup_cmd": "./setup.sh",
    "hooks": {
        "guard": "arc_swap_verif",
        "enable": "RUSTFLAGS --cfg arc_swap_verif (set in /verif/harness/.cargo/config.toml; the harness depends on /repo by path and is rebuilt by every check)",
        "baseline_off_cmd": "cd /repo && cargo nextest run --workspace --no-fail-fast --tool-config-file pb:/w/lib/nextest.toml --profile pb --test-threads 8 --offline",
        "source_commits": [hooks_commit, "591a88c"],
        "add_only": True,
    },
    "engines": [{"name": "tla-conformance", "path": "/verif/check", "serves_properties": [c["property_id"] for c in checks],
                 "kind_free_text": "TLA+ specs (spec/*.tla) checked by TLC; Rust harness (harness/) replays schedules on the real crate built with the atomics shim; TLC validates the recorded NDJSON traces against Trace_*.tla"}],
    "checks": checks,
    "notes": "Fixes of genuine defects in /repo: see KNOWN_FINDINGS.txt (fixed: lines) and DESIGN.md section 12.",
    "not_applicable": na,
}
json.dump(m, open(os.path.join(V, "MANIFEST.json"), "w"), indent=1)
print(len(checks), "checks,", len(na), "not applicable")

#!/bin/sh
# mutant.sh PATCH PROP...: apply PATCH to /repo, run the quick checks of the given properties, revert.
PATCH=$1; shift
cd /repo || exit 2
git diff --quiet || { echo "/repo not clean"; exit 2; }
git apply "$PATCH" || { echo "patch does not apply"; exit 2; }
cd /verif
for p in "$@"; do
  echo "=== $p"
  ./check $p 2>&1 | grep -v "^\[check\] mc \|harness built" | cut -c1-300
  echo "exit=$?"
done
cd /repo && git checkout -- . && git status --short | head -3

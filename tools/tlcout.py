#!/usr/bin/env python3
"""Condense TLC output: join multi-line PrintT tuples starting with <<"TRACE_ into one line each; pass errors."""
import sys, re
buf = None
for line in sys.stdin:
    line = line.rstrip("\n")
    if buf is not None:
        buf += " " + line.strip()
        if buf.count("<<") == buf.count(">>"):
            print(buf); buf = None
        continue
    if line.lstrip().startswith("<<") and '"TRACE_' in line or (line.strip() == "<<"):
        buf = line.strip()
        if buf.count("<<") == buf.count(">>") and buf != "<<":
            print(buf); buf = None
        continue
    if re.search(r"Error|error|Exception|violated|states generated|Finished in", line):
        print(line)

#!/bin/sh
# try_mutant.sh ID PROP...: apply seeded/ID/patch.diff to /repo, run the quick checks of the given properties, undo. Nothing else may
# use /repo meanwhile. Prints the result lines.
id=$1; shift
cd /verif
git -C /repo diff --quiet || { echo "/repo is not clean"; exit 2; }
git -C /repo apply /verif/seeded/$id/patch.diff || { echo "patch does not apply"; exit 2; }
echo "# $(date -u +%FT%TZ) quick checks against seeded/$id/patch.diff (VERIF_SEED=${VERIF_SEED:-0}), applied to /repo and undone"
for p in "$@"; do
  ./check $p 2>&1 | grep -E "^(VIOLATION|OK|KNOWN-FINDING|TOOL-ERROR)" | cut -c1-260
done
git -C /repo checkout -- .

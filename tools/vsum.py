#!/usr/bin/env python3
import re,collections,json,sys
jobs=[json.loads(l) for l in open(sys.argv[1])]
c=collections.Counter(); ex={}
for l in open(sys.argv[2]):
    m=re.match(r'<<\s*"TRACE_\w+_VIOLATION", (\d+), (\d+), "([\w+]+)", "(.*)"\s*>>',l.strip())
    if m:
        x=int(m.group(1)); fam=jobs[x-1].get('fam','?')
        k=(m.group(3),m.group(4)[:70],fam); c[k]+=1; ex.setdefault(k,(x,int(m.group(2))))
for k,v in c.most_common(): print(v,k,ex[k])

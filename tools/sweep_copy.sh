#!/bin/sh
# sweep_copy.sh OUTDIR id:PROPS ... : like sweep_mutants.sh but on private copies of /repo and /verif (does not disturb /repo)
OUT=$1; shift
W=/tmp/sw_$$
mkdir -p $W $OUT
git -C /repo worktree add --detach $W/repo HEAD -q
rsync -a --exclude .cache --exclude replays --exclude .git /verif/ $W/verif/
sed -i "s|path = \"/repo\"|path = \"$W/repo\"|" $W/verif/harness/Cargo.toml
export VERIF_REPO=$W/repo
cd $W/verif
for m in "$@"; do
  id=${m%%:*}; props=$(echo ${m##*:} | tr ',' ' ')
  out=$OUT/$id.txt
  echo "# $(date -u +%FT%TZ) quick checks against seeded/$id/patch.diff (VERIF_SEED=${VERIF_SEED:-0}), private copies" > $out
  (cd $W/repo && git apply /verif/seeded/$id/patch.diff) || { echo "patch does not apply" >> $out; continue; }
  for p in $props; do
    ./check $p 2>&1 | grep -E "^(VIOLATION|OK|KNOWN-FINDING|TOOL-ERROR)" | sed "s|$W/verif|/verif|g" | cut -c1-260 >> $out
  done
  (cd $W/repo && git checkout -- .)
  echo "== $id"; cat $out
done
cd /; git -C /repo worktree remove --force $W/repo; rm -rf $W

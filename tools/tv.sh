#!/bin/sh
# tv.sh TRACE [spec]: validate a trace with TLC, print the TRACE_* lines
cd /verif/spec
SPEC=${2:-Trace_Abs}
MD=$(mktemp -d /verif/.cache/md.XXXXXX)
TRACE=$1 JAVA_TOOL_OPTIONS="-Xss1g" timeout ${TV_TIMEOUT:-1800} tlc -workers 1 -metadir $MD -cleanup -noGenerateSpecTE -config $SPEC.cfg $SPEC.tla 2>&1 | python3 /verif/tools/tlcout.py
rm -rf $MD

#!/usr/bin/env python3
"""Generate spec/MC_*.cfg from one table (single source of truth for the TLC configurations)."""
import os
SPEC = os.path.join(os.path.dirname(os.path.dirname(os.path.abspath(__file__))), "spec")
INV = "Refines HeldLive StoredLive NodeExclusive NodeUsedOwned Ledger EnvelopeLinear LoadSteps NodeBound TypeOK"
BASE = dict(Threads="{1, 2}", Conts="{1}", NF=1, GenMod=4, NAddr=3, MaxNodes=3, MaxObj=6, WrapMode='"fixed"',
            MaxSpur=1, SoloOn="FALSE", Bug='""', Hist='"off"', UseFast="TRUE")
T3 = "{1, 2, 3}"
CFGS = {
    # name: (program, overrides, invariants)
    "rw1": ("P_rw1", {}, INV),
    "rw1_nf0": ("P_rw1", dict(NF=0), INV),
    "rw1_nofast": ("P_rw1", dict(NF=1, UseFast="FALSE"), INV),
    "lfsw_nofast": ("P_lfsw", dict(NF=1, UseFast="FALSE", MaxObj=5), INV),
    "rw1_nf2": ("P_rw1", dict(NF=2), INV),
    "rw1h": ("P_rw1h", {}, INV),
    "rw1h_nf0": ("P_rw1h", dict(NF=0), INV),
    "lfsw": ("P_lfsw", dict(MaxObj=5), INV),
    "lfsw_nf0": ("P_lfsw", dict(NF=0, MaxObj=5), INV),
    "2r1w": ("P_2r1w", dict(Threads=T3, MaxObj=3, MaxNodes=3), INV),
    "2r1w_nf0": ("P_2r1w", dict(Threads=T3, NF=0, MaxObj=3, MaxNodes=3), INV),
    "1r2w": ("P_1r2w", dict(Threads=T3, MaxObj=4, MaxNodes=3), INV),
    "1r2w_nf0": ("P_1r2w", dict(Threads=T3, NF=0, MaxObj=4, MaxNodes=3), INV),
    "rcu2": ("P_rcu2", dict(MaxObj=6, NAddr=4), INV),
    "rcu2_nf0": ("P_rcu2", dict(NF=0, MaxObj=6, NAddr=4), INV),
    "rcust": ("P_rcust", dict(MaxObj=6, NAddr=4), INV),
    "rculd": ("P_rculd", dict(Threads=T3, MaxObj=6, NAddr=4), INV),
    "2c": ("P_2c", dict(Conts="{1, 2}", NAddr=4, MaxObj=5), INV),
    "2c_nf0": ("P_2c", dict(Conts="{1, 2}", NF=0, NAddr=4, MaxObj=5), INV),
    "hc": ("P_hc", dict(Threads=T3, Conts="{1, 2}", NF=0, NAddr=4, MaxObj=4, MaxNodes=3), INV),
    "hc1": ("P_hc1", dict(Threads=T3, NF=0, NAddr=3, MaxObj=3, MaxNodes=3), INV),
    "bug_hc_space": ("P_hc", dict(Threads=T3, Conts="{1, 2}", NF=0, NAddr=4, MaxObj=4, MaxNodes=3, Bug='"space_hoisted"'), INV),
    "bug_hc_addr": ("P_hc", dict(Threads=T3, Conts="{1, 2}", NF=0, NAddr=4, MaxObj=4, MaxNodes=3, Bug='"addr_hoisted"'), INV),
    "churn": ("P_churn", dict(MaxObj=3), INV),
    "churn_nf0": ("P_churn", dict(NF=0, MaxObj=3), INV),
    "churn2": ("P_churn2", dict(Threads=T3, MaxObj=3), INV),
    "wrap_fixed": ("P_wrap", dict(NF=0, GenMod=2, MaxObj=4), INV),
    "wrapw_fixed": ("P_wrapw", dict(NF=0, GenMod=2, MaxObj=5), INV),
    "wrap2c_fixed": ("P_wrap2c", dict(Conts="{1, 2}", NF=0, GenMod=2, NAddr=4, MaxObj=4), INV),
    "bug_wrap_cycle": ("P_wrap2c", dict(Conts="{1, 2}", NF=0, GenMod=2, NAddr=4, MaxObj=4, Bug='"wrap_not_detected"'), INV),
    "cas": ("P_cas", dict(MaxObj=4, NAddr=4), INV),
    "cas_nf0": ("P_cas", dict(NF=0, MaxObj=4, NAddr=4), INV),
    "cas2": ("P_cas2", dict(MaxObj=4, NAddr=4), INV),
    "cache": ("P_cache", dict(MaxObj=4), INV),
    "cache_nf0": ("P_cache", dict(NF=0, MaxObj=4), INV),
    "cache2": ("P_cache2", dict(Threads=T3, MaxObj=3), INV),
    "bug_cache": ("P_cache", dict(MaxObj=4, Bug='"cache_never_revalidates"'), INV),
    # the design as written in 1.7.1: the expect in confirm_helping fires (finding F1) - negative control
    "wrap_code": ("P_wrap", dict(NF=0, GenMod=2, MaxObj=4, WrapMode='"code"'), "Refines"),
    # seeded model bugs - negative controls (the invariants must notice)
    "bug_confirm": ("P_rw1", dict(Bug='"confirm_ignored"'), INV),
    "bug_hslot": ("P_rw1", dict(NF=0, Bug='"helping_slot_not_paid"'), INV),
    "bug_nohelp": ("P_rw1", dict(NF=0, Bug='"no_help"'), INV),
    "bug_nowalk": ("P_rw1", dict(NF=0, Bug='"helping_not_walked"'), INV),
    # lock-freedom: freeze everybody else at any point
    "solo_rw1": ("P_rw1", dict(SoloOn="TRUE"), "Refines SoloProgress SoloBound"),
    "solo_rw1_nf0": ("P_rw1", dict(SoloOn="TRUE", NF=0), "Refines SoloProgress SoloBound"),
    "solo_rcust": ("P_rcust", dict(SoloOn="TRUE", MaxObj=6, NAddr=4), "Refines SoloProgress SoloBound"),
    "solo_churn": ("P_churn", dict(SoloOn="TRUE", MaxObj=3), "Refines SoloProgress SoloBound"),
    "bug_solo_cooldown": ("P_churn", dict(SoloOn="TRUE", MaxObj=3, Bug='"cooldown_wait"'), "Refines SoloProgress SoloBound"),
}
# liveness: termination of every operation under weak fairness (temporal property, no state constraint)
LIVE = {"live_rw1": ("P_rw1", {}), "live_rw1_nf0": ("P_rw1", dict(NF=0)), "live_lfsw": ("P_lfsw", dict(MaxObj=5)),
        "live_churn": ("P_churn", dict(MaxObj=3)), "live_2c_nf0": ("P_2c", dict(Conts="{1, 2}", NF=0, NAddr=4, MaxObj=5)),
        "live_rcust": ("P_rcust", dict(MaxObj=6, NAddr=4)),
        "live_bug_wait": ("P_rw1", dict(NF=0, Bug='"wait_for_help"'))}
for name, (prog, over) in LIVE.items():
    c = dict(BASE)
    c.update(over)
    with open(os.path.join(SPEC, "MC_%s.cfg" % name), "w") as f:
        f.write("SPECIFICATION FairSpec\nCONSTANTS\n  Prog <- %s\n" % prog)
        for k, v in c.items():
            f.write("  %s = %s\n" % (k, v))
        f.write("PROPERTY Termination\nCHECK_DEADLOCK FALSE\n")
for name, (prog, over, inv) in CFGS.items():
    c = dict(BASE)
    c.update(over)
    with open(os.path.join(SPEC, "MC_%s.cfg" % name), "w") as f:
        f.write("SPECIFICATION Spec\nCONSTANTS\n  Prog <- %s\n" % prog)
        for k, v in c.items():
            f.write("  %s = %s\n" % (k, v))
        f.write("INVARIANTS %s\nCHECK_DEADLOCK FALSE\n" % inv)
print(len(CFGS) + len(LIVE), "configurations written")

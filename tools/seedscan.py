#!/usr/bin/env python3
"""seedscan.py SEED...: run the shared stages of the quick tier for several seeds on the current tree and list every violation
that is not a known finding (false-alarm hunt on the unchanged tree)."""
import sys, os, re
sys.path.insert(0, os.path.dirname(os.path.abspath(__file__)))
import pipeline as P, props
P.build()
key = P.tree_key()
kf = P.known_findings()
for seed in map(int, sys.argv[1:]):
    summ, wd = P.conc_stage("quick", seed, key)
    bad = [v for v in summ["viols"] if not any(k["prop"] in v["prop"].split("+") and re.search(k["key"], v.get("key", "")) for k in kf)]
    mem = props.mem_stage("quick", seed, key, P)
    seq = props.seq_stage("quick", seed, key, P)
    print("seed %d: conc %d executions, %d unexpected; mem %d unexpected; seq %d unexpected" %
          (seed, summ["execs"], len(bad), len(mem["viols"]), len(seq["viols"])))
    for v in bad + mem["viols"] + seq["viols"]:
        print("   ", v["prop"], v.get("fam"), v["why"][:90], v.get("replay"))

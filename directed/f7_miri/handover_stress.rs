//! Demonstration for the seeded defect (property C07, helper hand-over path).
//!
//! Copy to tests/demo_seeded.rs (or use _out/demo/run_seeds.sh, which does that). It is meant to
//! be run under Miri, whose data race detector implements the C11 happens-before relation and
//! reports the missing edge that x86 hardware never shows:
//!
//! MIRIFLAGS="-Zmiri-disable-weak-memory-emulation -Zmiri-address-reuse-rate=0 \
//!     -Zmiri-preemption-rate=0.0005 -Zmiri-seed=1" \
//!   cargo +nightly miri test --offline --features internal-test-strategies --test demo_seeded handover
//!
//! Under a plain `cargo test` the tests in here pass with and without the change (that is the
//! point of the property). See README.txt for the flags.
//!
//! What happens: the reader is forced into the helping fallback (no fast slots). When the writer
//! collides with it (sees the reader's generation in the control word), it loads a fully
//! protected value and hands it over through the envelope + control word. The reader then uses a
//! value it did not load itself. The only thing that makes the content of that value (written by
//! the writer thread just before `store`) visible to the reader is the release/acquire pair on
//! the hand-over.
#![allow(deprecated)]

use std::sync::atomic::{AtomicBool, AtomicUsize, Ordering};
use std::sync::Arc;
use std::thread;

use arc_swap::strategy::test_strategies::FillFastSlots;
use arc_swap::strategy::DefaultStrategy;
use arc_swap::ArcSwapAny;

/// Plain (non-atomic) data, partly behind another pointer.
struct Payload {
    a: usize,
    b: Box<usize>,
}

impl Payload {
    fn new(i: usize) -> Arc<Self> {
        Arc::new(Payload {
            a: i,
            b: Box::new(i),
        })
    }
}

const ROUNDS: usize = 150;

/// The reader always goes through the helping fallback (the strategy has the fast slots turned
/// off, it is otherwise the very same code as the default one).
#[test]
fn handover_publishes_pointee_no_fast_slots() {
    let shared = Arc::new(ArcSwapAny::<Arc<Payload>, FillFastSlots>::from(Payload::new(0)));
    let done = Arc::new(AtomicBool::new(false));
    let reads = Arc::new(AtomicUsize::new(0));

    let reader = thread::spawn({
        let shared = Arc::clone(&shared);
        let done = Arc::clone(&done);
        let reads = Arc::clone(&reads);
        move || {
            // Relaxed on purpose: the flag must not synchronize the two threads.
            while !done.load(Ordering::Relaxed) {
                let guard = shared.load();
                // Plain reads of what the writer thread wrote before the store.
                assert_eq!(guard.a, *guard.b);
                reads.fetch_add(1, Ordering::Relaxed);
            }
        }
    });

    let writer = thread::spawn({
        let shared = Arc::clone(&shared);
        let done = Arc::clone(&done);
        move || {
            for i in 1..=ROUNDS {
                shared.store(Payload::new(i));
            }
            done.store(true, Ordering::Relaxed);
        }
    });

    writer.join().unwrap();
    reader.join().unwrap();
    assert!(reads.load(Ordering::Relaxed) > 0);
}

/// The same with the default strategy. The reader keeps all its 8 fast slots busy with guards, so
/// the 9th load has to use the helping fallback.
#[test]
fn handover_publishes_pointee_default_strategy() {
    let shared = Arc::new(ArcSwapAny::<Arc<Payload>, DefaultStrategy>::from(Payload::new(0)));
    let done = Arc::new(AtomicBool::new(false));

    let reader = thread::spawn({
        let shared = Arc::clone(&shared);
        let done = Arc::clone(&done);
        move || {
            while !done.load(Ordering::Relaxed) {
                // Occupy the fast slots (a writer frees them by paying them, so this is repeated).
                let guards = (0..8).map(|_| shared.load()).collect::<Vec<_>>();
                for _ in 0..4 {
                    let guard = shared.load();
                    assert_eq!(guard.a, *guard.b);
                }
                drop(guards);
            }
        }
    });

    let writer = thread::spawn({
        let shared = Arc::clone(&shared);
        let done = Arc::clone(&done);
        move || {
            for i in 1..=ROUNDS {
                shared.store(Payload::new(i));
            }
            done.store(true, Ordering::Relaxed);
        }
    });

    writer.join().unwrap();
    reader.join().unwrap();
}

--------------------------- MODULE MC_Impl ---------------------------
(* Model-checking configurations of ArcSwapImpl: programs as constants. *)
EXTENDS ArcSwapImpl

ld(c)  == [k |-> "load", c |-> c]
lf(c)  == [k |-> "loadfull", c |-> c]
dg     == [k |-> "dropg", c |-> 0]
dh     == [k |-> "droph", c |-> 0]
dother == [k |-> "dropother", c |-> 0]
st(c)  == [k |-> "store", c |-> c]
sw(c)  == [k |-> "swap", c |-> c]
rcu(c) == [k |-> "rcu", c |-> c]
ex     == [k |-> "exit", c |-> 0]
sg(n)  == [k |-> "setgen", c |-> n]

\* 1 reader (2 loads + drops) x 1 writer (2 stores)
P_rw1 == (1 :> <<ld(1), dg, ld(1), dg>>) @@ (2 :> <<st(1), st(1)>>)
\* reader holds the first guard across the second load
P_rw1h == (1 :> <<ld(1), ld(1), dg, dg>>) @@ (2 :> <<st(1), st(1)>>)
\* load_full + swap
P_lfsw == (1 :> <<lf(1), dh, lf(1), dh>>) @@ (2 :> <<sw(1), dh, st(1)>>)
\* 2 readers x 1 writer
P_2r1w == (1 :> <<ld(1), dg>>) @@ (2 :> <<lf(1), dh>>) @@ (3 :> <<st(1)>>)
\* 1 reader x 2 writers
P_1r2w == (1 :> <<ld(1), dg>>) @@ (2 :> <<st(1)>>) @@ (3 :> <<sw(1), dh>>)
\* rcu x rcu, rcu x store
P_rcu2 == (1 :> <<rcu(1), dh>>) @@ (2 :> <<rcu(1), dh>>)
P_rcust == (1 :> <<rcu(1), dh>>) @@ (2 :> <<st(1)>>)
P_rculd == (1 :> <<rcu(1), dh>>) @@ (2 :> <<ld(1), dg>>) @@ (3 :> <<st(1)>>)
\* two containers: reader of 1 on the fallback path while a writer of 2 walks its node
P_2c == (1 :> <<ld(1), dg, ld(2), dg>>) @@ (2 :> <<st(2), st(1)>>)
\* help collision: the reader's transaction a writer looked at is completed by the OTHER writer, the reader starts the
\* next one (on the first writer's container) before that writer looks again
P_hc == (1 :> <<ld(1), dg, ld(2), dg>>) @@ (2 :> <<st(2)>>) @@ (3 :> <<st(1)>>)
P_hc1 == (1 :> <<ld(1), dg, ld(1), dg>>) @@ (2 :> <<st(1)>>) @@ (3 :> <<st(1)>>)
\* thread churn: thread 1 lives twice, writer meanwhile; thread 3 drops a guard left by thread 1
P_churn == (1 :> <<ld(1), dg, ex, ld(1), dg, ex>>) @@ (2 :> <<st(1)>>)
P_churn2 == (1 :> <<ld(1), ex>>) @@ (2 :> <<st(1)>>) @@ (3 :> <<ld(1), dg, dother, ex>>)
\* generation wrap (GenMod small, fallback forced by NF = 0)
P_wrap == (1 :> <<ld(1), dg, ld(1), dg, ld(1), dg>>) @@ (2 :> <<st(1), st(1)>>)
\* a full cycle of the generations while a writer is inside help: the third load (other container) has the first one's generation
P_wrap2c == (1 :> <<ld(1), dg, ld(2), dg, ld(2), dg>>) @@ (2 :> <<st(1)>>)
P_wrapw == (1 :> <<lf(1), dh, st(1), lf(1), dh>>) @@ (2 :> <<st(1)>>)
cas(c) == [k |-> "cas", c |-> c]
\* compare_and_swap against a handle loaded earlier, racing with a store (the stale handle makes it fail) and with another CAS
P_cas == (1 :> <<lf(1), cas(1), dg, dh>>) @@ (2 :> <<st(1)>>)
P_cas2 == (1 :> <<lf(1), cas(1), dg, dh>>) @@ (2 :> <<lf(1), cas(1), dg, dh>>)
cn(c)  == [k |-> "cnew", c |-> c]
cl     == [k |-> "cload", c |-> 0]
cd     == [k |-> "cdrop", c |-> 0]
\* Cache: new, loads, drop against two stores
P_cache == (1 :> <<cn(1), cl, cl, cd>>) @@ (2 :> <<st(1), st(1)>>)
P_cache2 == (1 :> <<cn(1), cl, cd>>) @@ (2 :> <<st(1)>>) @@ (3 :> <<cn(1), cl, cd>>)
\* programs for schedule extraction (tools/cover.py)
P_cov_a == (1 :> <<ld(1), dg, ld(1), dg, ex>>) @@ (2 :> <<st(1), ex>>) @@ (3 :> <<st(1), ex>>)
P_cov_c == (1 :> <<rcu(1), dh, ex>>) @@ (2 :> <<st(1), ex>>) @@ (3 :> <<ld(1), dg, ex>>)
P_cov_d == (1 :> <<lf(1), dh, lf(1), dh, ex>>) @@ (2 :> <<sw(1), dh, st(1), ex>>)
P_cov_e == (1 :> <<cn(1), cl, cl, cd, ex>>) @@ (2 :> <<st(1), st(1), ex>>)
Executed(X) == hist # <<>> /\ hist[Len(hist)][2] = X
====

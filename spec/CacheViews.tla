----------------------------- MODULE CacheViews -----------------------------
(***************************************************************************)
(* C16, sequential face: every way of looking through a cache shows the    *)
(* same thing.  One container, several caches over it:                     *)
(*   view 1  a plain Cache read with the inherent Cache::load              *)
(*   view 2  a plain Cache read through the trait arc_swap::cache::Access  *)
(*           (not available for the Option flavour)                        *)
(*   view 3  a mapped cache (Cache::map), read through the trait           *)
(*   view 4  a clone of cache 1 made at some point, read with Cache::load  *)
(* In a sequential run a load returns exactly the stored value, a cache    *)
(* holds ONE reference, to the value it last returned (a clone: to what    *)
(* its original held when it was cloned), and releases the previous one on *)
(* the load that observes the change.  TLC enumerates every program up to  *)
(* MaxLen with the result and the strong count of every value predicted    *)
(* after every step; the harness executes them on the real types.          *)
(***************************************************************************)
EXTENDS Integers, Sequences, FiniteSets, TLC, Json

CONSTANTS MaxLen, Flavour      \* Flavour = "plain" (ArcSwap) | "option" (ArcSwapOption: None can be stored, no view 2)

VARIABLES cell, held, nval, hist
vars == <<cell, held, nval, hist>>
Views == IF Flavour = "plain" THEN {1, 2, 3, 4} ELSE {1, 3, 4}
NoCache == -1          \* the view does not exist (yet)
None == 0              \* the container holds None

Init == /\ cell = 1 /\ nval = 1
        /\ held = [k \in {1, 2, 3, 4} |-> IF k \in Views \ {4} THEN 1 ELSE NoCache]
        /\ hist = <<>>

Count(v, c, h) == (IF c = v THEN 1 ELSE 0) + Cardinality({k \in {1, 2, 3, 4} : h[k] = v})
Counts(c, h, n) == [v \in 1..n |-> Count(v, c, h)]
Log(o, c, h, n) == hist' = Append(hist, o @@ [counts |-> Counts(c, h, n)])

Store == /\ cell' = nval + 1 /\ nval' = nval + 1 /\ UNCHANGED held
         /\ Log([op |-> "store", view |-> 0, result |-> 0], nval + 1, held, nval + 1)
\* the value already stored is stored again (another reference to the same value)
StoreSame == /\ cell # None /\ UNCHANGED <<cell, nval, held>>
             /\ Log([op |-> "store_same", view |-> 0, result |-> 0], cell, held, nval)
StoreNone == /\ Flavour = "option" /\ cell' = None /\ UNCHANGED <<nval, held>>
             /\ Log([op |-> "store_none", view |-> 0, result |-> 0], None, held, nval)
Load(k) == /\ k \in Views /\ held[k] # NoCache
           /\ held' = [held EXCEPT ![k] = cell] /\ UNCHANGED <<cell, nval>>
           /\ Log([op |-> "load", view |-> k, result |-> cell], cell, [held EXCEPT ![k] = cell], nval)
Clone1 == /\ held[4] = NoCache
          /\ held' = [held EXCEPT ![4] = held[1]] /\ UNCHANGED <<cell, nval>>
          /\ Log([op |-> "clone", view |-> 4, result |-> 0], cell, [held EXCEPT ![4] = held[1]], nval)
DropClone == /\ held[4] # NoCache
             /\ held' = [held EXCEPT ![4] = NoCache] /\ UNCHANGED <<cell, nval>>
             /\ Log([op |-> "drop_clone", view |-> 4, result |-> 0], cell, [held EXCEPT ![4] = NoCache], nval)

Next == /\ Len(hist) < MaxLen
        /\ (Store \/ StoreSame \/ StoreNone \/ Clone1 \/ DropClone \/ \E k \in Views : Load(k))
Spec == Init /\ [][Next]_vars

\* a value nobody holds is gone; the stored value is always held
Sane == \A v \in 1..nval : Count(v, cell, held) >= (IF cell = v THEN 1 ELSE 0)
PrintProgram == Len(hist) = MaxLen => PrintT(<<"CVIEW", ToJson([flavour |-> Flavour, ops |-> hist])>>)
=============================================================================

----------------------------- MODULE SerdeShapes -----------------------------
(***************************************************************************)
(* C20: the value shapes (scalars, strings, sequences, nested structures)  *)
(* on which the serde relation is checked: serialize(container) =          *)
(* serialize(stored pointer), deserialize gives a container holding the    *)
(* value with a single reference, round trip preserves it.  The encoding   *)
(* itself is serde's business; TLC only enumerates the shapes (as tuples:  *)
(* TLC sets must be homogeneous).                                          *)
(***************************************************************************)
EXTENDS Integers, Sequences, TLC, Json

Scalars == <<0, 1, -7, 2147483647, "", "text", "with \\ and unicode", TRUE, FALSE>>
Small == <<0, "text", TRUE>>
N(T) == Len(T)
\* all sequences of length 0..2 over T, all structs with 1..2 fields over T
One(T)   == [i \in 1..N(T) |-> <<T[i]>>]
Two(T)   == [k \in 1..(N(T) * N(T)) |-> <<T[((k - 1) \div N(T)) + 1], T[((k - 1) % N(T)) + 1]>>]
S1(T)    == [i \in 1..N(T) |-> [f0 |-> T[i]]]
S2(T)    == [k \in 1..(N(T) * N(T)) |-> [f0 |-> T[((k - 1) \div N(T)) + 1], field1 |-> T[((k - 1) % N(T)) + 1]]]
Nested == << <<0>>, [f0 |-> "text"], <<>>, <<1, "text">>, [f0 |-> [f0 |-> TRUE]], [a |-> <<[b |-> <<1, 2>>]>>, c |-> ""] >>
Shapes == Scalars \o <<<<>>>> \o One(Small) \o Two(Small) \o S1(Small) \o S2(Small)
          \o Nested \o One(Nested) \o Two(Nested) \o S1(Nested) \o S2(Nested)

\* The relation must not depend on what was serialized before on the same thread: histories of k earlier attempts
\* that failed inside the pointee's own Serialize (with an error or a panic), after which the relation is checked
\* again; and containers nested d levels deep inside the value (a container in a container ...).
Histories == { <<k, n>> : k \in {"err", "panic"}, n \in {1, 2, 130, 300} }
Depths == {1, 2, 3, 40, 150}
EmitH == /\ \A h \in Histories : PrintT(<<"HIST", ToJson([kind |-> h[1], count |-> h[2], depth |-> 0])>>)
         /\ \A d \in Depths : PrintT(<<"HIST", ToJson([kind |-> "nest", count |-> 0, depth |-> d])>>)

VARIABLE x
Init == x = 0
Next == x' = x
Spec == Init /\ [][Next]_x
Emit == \A i \in 1..Len(Shapes) : PrintT(<<"SHAPE", ToJson(Shapes[i])>>)
=============================================================================

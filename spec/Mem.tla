------------------------------- MODULE Mem -------------------------------
(***************************************************************************)
(* Happens-before layer (C11-style release/acquire, release sequences,     *)
(* fences) in monitor form: vector clocks for threads, message views for   *)
(* atomic locations, FastTrack-style epochs for the pointee's plain data.  *)
(*                                                                         *)
(* It is fed with the atomic accesses the code REALLY performed, with the  *)
(* orderings it REALLY requested (logged by the shim), plus the count      *)
(* operations / dereferences / destruction of the pointer type and the     *)
(* user-level hand-overs of the harness (register put/use, join).          *)
(*                                                                         *)
(* SeqCst is treated as AcqRel here: on an interleaving every access reads *)
(* the latest write, so the only thing SeqCst adds (a total order) is      *)
(* already there; happens-before for PLAIN data arises only from           *)
(* release/acquire pairs and fences (DESIGN section 4).                    *)
(*                                                                         *)
(* The pointer type follows Arc: increment = Relaxed RMW, decrement =      *)
(* Release RMW, Acquire fence when the count reaches zero.                 *)
(***************************************************************************)
EXTENDS Integers, Sequences, FiniteSets, TLC

CONSTANT MaxT              \* threads are 0..MaxT
TS == 0..MaxT
Zero == [i \in TS |-> 0]
Max2(a, b) == IF a >= b THEN a ELSE b
Join(a, b) == [i \in TS |-> Max2(a[i], b[i])]
Leq(a, b) == \A i \in TS : a[i] <= b[i]
OK == <<"ok", "">>

\* C   : thread -> clock            P : thread -> pending-acquire clock (relaxed reads, for acquire fences)
\* RF  : thread -> clock at the last release fence
\* V   : atomic location -> message view (release clock carried by the latest write / release sequence)
\* W   : object -> <<thread, epoch>> of its initialisation;  R : object -> per-thread read epochs
\* F   : thread -> final clock (for join);  G : register -> clock of the hand-over
InitMem == [ C |-> [t \in TS |-> [i \in TS |-> IF i = t THEN 1 ELSE 0]], P |-> [t \in TS |-> Zero],
             RF |-> [t \in TS |-> Zero], V |-> <<>>, W |-> <<>>, R |-> <<>>, F |-> <<>>, G |-> <<>>,
             ords |-> {}, owner |-> <<>>, inside |-> <<>>, stale |-> <<>> ]

View(m, x) == IF x \in DOMAIN m.V THEN m.V[x] ELSE Zero
Tick(m, t) == [m EXCEPT !.C[t][t] = @ + 1]
Acq(o)  == o \in {"acq", "ar", "sc"}
Rel(o)  == o \in {"rel", "ar", "sc"}

\* an atomic location is named by role, node and index
Loc(e) == <<e.r, e.n, e.i>>

\* ---- atomic accesses -------------------------------------------------
ReadPart(m, t, x, o) ==
  IF Acq(o) THEN [m EXCEPT !.C[t] = Join(@, View(m, x))]
  ELSE [m EXCEPT !.P[t] = Join(@, View(m, x))]
\* a plain store starts a new release sequence; an RMW continues the one it read from
StoreView(m, t, o) == IF Rel(o) THEN m.C[t] ELSE m.RF[t]
WriteStore(m, t, x, o) == [m EXCEPT !.V = (x :> StoreView(m, t, o)) @@ @]
WriteRmw(m, t, x, o)   == [m EXCEPT !.V = (x :> Join(View(m, x), StoreView(m, t, o))) @@ @]

Atomic(m0, e) ==
  LET t == e.t
      x == Loc(e)
      m == [m0 EXCEPT !.ords = @ \cup {<<e.loc, e.r, e.k, e.o, e.fo>>}]
  IN CASE e.k = "load"  -> Tick(ReadPart(m, t, x, e.o), t)
       [] e.k = "store" -> Tick(WriteStore(m, t, x, e.o), t)
       [] e.k \in {"swap", "add", "sub"} -> Tick(WriteRmw(ReadPart(m, t, x, e.o), t, x, e.o), t)
       [] e.k \in {"cas", "casw"} ->
            IF e.ok THEN Tick(WriteRmw(ReadPart(m, t, x, e.o), t, x, e.o), t)
            ELSE Tick(ReadPart(m, t, x, e.fo), t)
       [] e.k = "fence" ->
            LET m1 == IF Acq(e.o) THEN [m EXCEPT !.C[t] = Join(@, m.P[t])] ELSE m
            IN Tick(IF Rel(e.o) THEN [m1 EXCEPT !.RF[t] = m1.C[t]] ELSE m1, t)
       [] OTHER -> m

\* ---- the pointer type (Arc semantics) --------------------------------
CntLoc(o) == <<"cnt", o, 0>>
IncM(m, e) == Tick(WriteRmw(ReadPart(m, e.t, CntLoc(e.o), "rlx"), e.t, CntLoc(e.o), "rlx"), e.t)
DecM(m, e) ==
  LET x  == CntLoc(e.o)
      m1 == WriteRmw(ReadPart(m, e.t, x, "rlx"), e.t, x, "rel")
      \* reaching zero: fence(Acquire)
      m2 == IF e.n = 0 THEN [m1 EXCEPT !.C[e.t] = Join(@, m1.P[e.t])] ELSE m1
  IN Tick(m2, e.t)

\* ---- the pointee's plain data ----------------------------------------
AllocM(m, e) == Tick([m EXCEPT !.W = (e.o :> <<e.t, m.C[e.t][e.t]>>) @@ @, !.R = (e.o :> Zero) @@ @], e.t)

InitSeen(m, t, o) == o \notin DOMAIN m.W \/ m.C[t][m.W[o][1]] >= m.W[o][2]
DerefV(m, e) ==
  IF e.o = 0 THEN OK
  ELSE IF ~InitSeen(m, e.t, e.o)
       THEN <<"C07", "a value is read through a handle although its initialisation does not happen-before the read (missing acquire on the path the pointer travelled)">>
       ELSE OK
DerefM(m, e) == IF e.o = 0 \/ e.o \notin DOMAIN m.R THEN m ELSE Tick([m EXCEPT !.R[e.o][e.t] = m.C[e.t][e.t]], e.t)

DestroyV(m, e) ==
  IF e.o \notin DOMAIN m.W THEN OK
  ELSE IF ~InitSeen(m, e.t, e.o)
       THEN <<"C07", "a value is destroyed by a thread that has not acquired its initialisation">>
  ELSE IF ~Leq(m.R[e.o], m.C[e.t])
       THEN <<"C07", "an access made through a handle does not happen-before the destruction of the value (data race with the destructor)">>
  ELSE OK

\* ---- harness-level synchronisation -----------------------------------
PutM(m, e)  == Tick([m EXCEPT !.G = (<<e.k, e.r>> :> m.C[e.t]) @@ @], e.t)
UseM(m, e)  == IF <<e.k, e.r>> \in DOMAIN m.G THEN [m EXCEPT !.C[e.t] = Join(@, m.G[<<e.k, e.r>>])] ELSE m
GoneM(m, e) == [m EXCEPT !.F = (e.t :> m.C[e.t]) @@ @]
JoinM(m, e) == IF e.u \in DOMAIN m.F THEN [m EXCEPT !.C[e.t] = Join(@, m.F[e.u])] ELSE m

\* ---- per-thread bookkeeping (C11): nodes are owned by one thread at a time; anybody else may touch the
\* transaction state of a node (control, helping slot, address, space offer) only while registered as a writer
\* (active_writers), and a node changes hands only when no writer that entered before its cool-down is inside
OwnerOf(m, n) == IF n \in DOMAIN m.owner THEN m.owner[n] ELSE -1
InsideOf(m, n) == IF n \in DOMAIN m.inside THEN m.inside[n] ELSE {}
StaleOf(m, n) == IF n \in DOMAIN m.stale THEN m.stale[n] ELSE {}
NodeV(m, e) ==
  CASE e.r \in {"ctrl", "space", "addr", "hslot"} /\ OwnerOf(m, e.n) # e.t /\ e.t \notin InsideOf(m, e.n)
         -> <<"C11", "a thread touched the transaction state of another thread's bookkeeping without being registered as a writer in it">>
    [] e.r = "inuse" /\ e.k = "cas" /\ e.ok /\ e.a0 = 0 /\ e.a1 = 1 /\ StaleOf(m, e.n) # {}
         -> <<"C11", "bookkeeping was handed to a new thread while a writer that entered before its cool-down is still inside">>
    [] e.r = "inuse" /\ e.k = "cas" /\ e.ok /\ e.a0 = 0 /\ e.a1 = 1 /\ OwnerOf(m, e.n) # -1
         -> <<"C11", "bookkeeping claimed by a second thread while the first still owns it">>
    [] OTHER -> OK
NodeM(m, e) ==
  CASE e.r = "head" /\ e.k = "casw" /\ e.ok -> [m EXCEPT !.owner = ((e.a1 - 1) :> e.t) @@ @]
    [] e.r = "inuse" /\ e.k = "cas" /\ e.ok /\ e.a0 = 0 /\ e.a1 = 1 -> [m EXCEPT !.owner = (e.n :> e.t) @@ @]
    [] e.r = "inuse" /\ e.k = "swap" /\ e.a0 = 2
         -> [m EXCEPT !.owner = (e.n :> -1) @@ @, !.stale = (e.n :> (InsideOf(m, e.n) \ {e.t})) @@ @]
    [] e.r = "wr" /\ e.k = "add" -> [m EXCEPT !.inside = (e.n :> (InsideOf(m, e.n) \cup {e.t})) @@ @]
    [] e.r = "wr" /\ e.k = "sub" -> [m EXCEPT !.inside = (e.n :> (InsideOf(m, e.n) \ {e.t})) @@ @,
                                               !.stale = (e.n :> (StaleOf(m, e.n) \ {e.t})) @@ @]
    [] OTHER -> m

MVerdict(m, e) ==
  CASE e.e = "at"      -> NodeV(m, e)
    [] e.e = "deref"   -> DerefV(m, e)
    [] e.e = "destroy" -> DestroyV(m, e)
    [] OTHER -> OK

MEffect(m, e) ==
  CASE e.e = "at"      -> NodeM(Atomic(m, e), e)
    [] e.e = "inc"     -> IncM(m, e)
    [] e.e = "dec"     -> DecM(m, e)
    [] e.e = "alloc"   -> AllocM(m, e)
    [] e.e = "deref"   -> DerefM(m, e)
    [] e.e = "put"     -> PutM(m, e)
    [] e.e = "use"     -> UseM(m, e)
    [] e.e = "gone"    -> GoneM(m, e)
    [] e.e = "join"    -> JoinM(m, e)
    [] OTHER -> m
=============================================================================

--------------------------- MODULE MC_RwLock ---------------------------
EXTENDS RwLockImpl
ld == [k |-> "load"]  lf == [k |-> "loadfull"]  dg == [k |-> "dropg"]  dh == [k |-> "droph"]
st == [k |-> "store"]  sw == [k |-> "swap"]  cas == [k |-> "cas"]
P_rw == (1 :> <<ld, dg, lf, dh>>) @@ (2 :> <<st, sw, dh>>)
P_cassw == (1 :> <<lf, cas, dg, dh>>) @@ (2 :> <<sw, dh>>)
P_cas2 == (1 :> <<lf, cas, dg, dh>>) @@ (2 :> <<lf, cas, dg, dh>>)
P_3 == (1 :> <<lf, cas, dg, dh>>) @@ (2 :> <<sw, dh>>) @@ (3 :> <<ld, dg>>)
=============================================================================

--------------------------- MODULE ArcSwapImpl ---------------------------
(***************************************************************************)
(* The IMPLEMENTATION-SHAPED specification of arc-swap 1.7.1.              *)
(*                                                                         *)
(* One action per atomic access of strategy/hybrid.rs, debt/{mod,fast,     *)
(* helping,list}.rs and lib.rs (labels carry file:line of the access).     *)
(* Interleaving (sequentially consistent) semantics; the weak-memory       *)
(* clauses live in Mem*.tla.  The ghost variable `ab` is the state of      *)
(* ArcSwapAbs, driven by the very events the harness logs from the real    *)
(* code; `err` records the first clause of ArcSwapAbs that an emitted      *)
(* event violates (refinement) or an internal assertion of the code that   *)
(* would fire (expect / assert / unreachable).                             *)
(*                                                                         *)
(* Deliberate abstractions (each named where it is made):                  *)
(*  - pointers are small integers (Addrs), freed addresses are reused;     *)
(*    NONE/IDLE/generations/envelopes are tagged records, not bit-packed   *)
(*  - the probe of the fast slots (Relaxed loads of the own slots,         *)
(*    fast.rs:54) is one step that picks the first free slot in rotation   *)
(*  - node allocation never fails; the list is the sequence 1..nnodes      *)
(*  - the null pointer is not modelled (ArcSwapOption is sequential glue)  *)
(***************************************************************************)
EXTENDS Integers, Sequences, FiniteSets, TLC

CONSTANTS
  Threads,      \* set of thread ids (integers)
  Prog,         \* Prog[t] : sequence of operations [k |-> kind, c |-> container]
  Conts,        \* set of containers
  NF,           \* fast slots per node (code: 8)
  GenMod,       \* generation modulus (code: 2^62)
  NAddr,        \* size of the address pool (reuse when smaller than #allocations)
  MaxNodes,
  MaxObj,
  WrapMode,     \* "code" = cool down where 1.7.1 does | "fixed" = at the end of the outermost use
  MaxSpur,      \* spurious failures of compare_exchange_weak per operation
  SoloOn,       \* TRUE: Freeze(t) actions enabled (C09)
  Bug,          \* "" or the name of a seeded model bug (negative controls)
  Hist,         \* "off" | "last" | "all": record who did what (schedule extraction for replay on the real code)
  UseFast       \* FALSE: the fallback-only test strategy (Config::USE_FAST = false): no fast attempt at all

Abs == INSTANCE ArcSwapAbs WITH LoadStepBound <- NF + 24

LoadEntry == IF UseFast THEN "L_first" ELSE "F_addr"
NONE  == 0
IDLE  == [k |-> "idle"]
GenV(g) == [k |-> "gen", g |-> g]
Repl(e) == [k |-> "repl", e |-> e]
Addrs == 1..NAddr
Nodes == 1..MaxNodes
Slots == 1..NF

VARIABLES
  sh,    \* shared memory of the crate
  th,    \* thread-local state
  hp,    \* the heap of the pointer type: address <-> object
  ab,    \* ghost: ArcSwapAbs state
  err,   \* "" or the first violated clause
  solo,  \* 0, or the only thread allowed to run (C09)
  sc,    \* steps taken by the solo thread since everybody else was frozen (saturating at SoloK + 1)
  hist   \* schedule history (see Hist)
vars == <<sh, th, hp, ab, err, solo, sc, hist>>

(* ---------------------------------------------------------------------- *)
Guard(a, n, i) == [a |-> a, n |-> n, i |-> i]      \* i = 0: owns a count; i in Slots: fast slot; i = -1: helping slot
NoG == Guard(0, 0, 0)

InitTh(t) ==
  [ pc |-> "idle", ip |-> 1, c |-> 0, ptr |-> 0, slot |-> 0, cand |-> 0, repl |-> 0, e |-> 0,
    gen |-> 0, disc |-> FALSE, node |-> 0, offset |-> 0, held |-> <<>>, handles |-> <<>>,
    stack |-> <<>>, r |-> NoG, old |-> 0, new |-> 0, todo |-> <<>>, m |-> 0, control |-> IDLE,
    ts |-> 0, ms |-> 0, ps |-> <<>>, steps |-> 0, cur |-> NoG, wl |-> <<>>, scan |-> 0,
    spur |-> 0, kind |-> "", depth |-> 0, after |-> "", used |-> FALSE, hnode |-> 0, prev |-> NoG, cont |-> "", iafter |-> "", cache |-> 0, xshared |-> 0, ha |-> 0 ]

Init ==
  /\ sh = [ storage |-> [c \in Conts |-> c],        \* container c initially holds the object at address c
            fast  |-> [n \in Nodes |-> [i \in Slots |-> NONE]],
            hslot |-> [n \in Nodes |-> NONE],
            ctrl  |-> [n \in Nodes |-> IDLE],
            addr  |-> [n \in Nodes |-> 0],
            space |-> [n \in Nodes |-> n],
            env   |-> [n \in Nodes |-> NONE],
            inuse |-> [n \in Nodes |-> "none"],
            wr    |-> [n \in Nodes |-> 0],
            nnodes |-> 0 ]
  /\ th = [t \in Threads |-> InitTh(t)]
  /\ hp = [ objAt |-> [a \in Addrs |-> IF a \in Conts THEN a ELSE 0],   \* object currently (or last) at the address
            free  |-> {a \in Addrs : a \notin Conts},
            next  |-> Cardinality(Conts) + 1 ]
  /\ ab = [log |-> <<>>] @@ [ Abs!InitState EXCEPT
              !.cell = [c \in Conts |-> c], !.known = Conts, !.cnt = [o \in Conts |-> 1],
              !.parent = [o \in Conts |-> -1], !.ever = [c \in Conts |-> {c}] ]
  /\ err = ""
  /\ solo = 0 /\ sc = 0
  /\ hist = <<>>

L(t)  == th[t]
PC(t) == th[t].pc
MY(t) == th[t].node
Cur(t) == Prog[t][th[t].ip]
HasOp(t) == th[t].ip <= Len(Prog[t])

(* ---- ghost: emit a sequence of Abs events ---------------------------- *)
RECURSIVE Fold(_, _, _)
Fold(s, e, evs) ==
  IF evs = <<>> THEN <<s, e>>
  ELSE LET v == Abs!Verdict(s, Head(evs)) IN
       IF e # "" THEN <<s, e>>
       ELSE IF v # Abs!OK THEN <<s, v[1] \o ": " \o v[2]>>
       ELSE LET s1 == Abs!Effect(s, Head(evs))
                \* (schedule extraction only) what every operation returned, for the comparison with the real run
                s2 == IF Hist = "all" /\ Head(evs).e = "ret"
                      THEN [s1 EXCEPT !.log = Append(@, <<Head(evs).t, Head(evs).op, Head(evs).v>>)] ELSE s1
            IN Fold(s2, e, Tail(evs))
Emit(evs) == LET r == Fold(ab, err, evs) IN ab' = r[1] /\ err' = r[2]
NoEmit == UNCHANGED <<ab, err>>
Fail(msg) == /\ err' = (IF err = "" THEN msg ELSE err) /\ UNCHANGED ab

Obj(a) == hp.objAt[a]
IsLive(o) == o \in ab.known /\ o \notin ab.dead

IncEv(t, a) == [e |-> "inc", t |-> t, o |-> Obj(a), n |-> (IF Obj(a) \in DOMAIN ab.cnt THEN ab.cnt[Obj(a)] ELSE 0) + 1, dead |-> ~IsLive(Obj(a))]
DecEvs(t, a) ==
  LET o == Obj(a)
      c == IF o \in DOMAIN ab.cnt THEN ab.cnt[o] ELSE 0
      d == [e |-> "dec", t |-> t, o |-> o, n |-> c - 1, dead |-> ~IsLive(o)]
  IN IF IsLive(o) /\ c = 1 THEN <<d, [e |-> "destroy", t |-> t, o |-> o]>> ELSE <<d>>
\* the address returns to the pool when its object dies
HpAfterDec(a) == IF IsLive(Obj(a)) /\ ab.cnt[Obj(a)] = 1 THEN [hp EXCEPT !.free = @ \cup {a}] ELSE hp

Set(t, upd) == th' = [th EXCEPT ![t] = upd]
\* own steps of the current operation; saturates (a writer may loop while others make progress, see
\* DESIGN: mutual helping), which keeps the state space finite
StepCap == NF + 40
Step1(r) == [r EXCEPT !.steps = IF @ < StepCap THEN @ + 1 ELSE @]

(* ====================================================================== *)
(* Operation dispatch                                                      *)
(* ====================================================================== *)
NeedsNode(k) == k \in {"load", "loadfull", "store", "swap", "rcu"}

InvEv(t, op, c, r) == [e |-> "inv", t |-> t, op |-> op, c |-> c, a |-> -1, b |-> -1, r |-> r]
RetEv(t, op, c, v, r, n) == [e |-> "ret", t |-> t, op |-> op, c |-> c, v |-> v, r |-> r, n |-> n, own |-> 0]

\* registers of the Abs alphabet: guard k of thread t is register t*10+k, handles likewise
GReg(t, k) == t * 10 + k
FreeG(t) == GReg(t, CHOOSE k \in 1..9 : GReg(t, k) \notin DOMAIN ab.greg)
FreeH(t) == GReg(t, CHOOSE k \in 1..9 : GReg(t, k) \notin DOMAIN ab.hreg)

\* LocalNode::with (list.rs:223): every outermost use of the thread-local node claims one first if the thread has none
With(r, next) == IF r.node = 0 THEN [r EXCEPT !.pc = "N_head", !.cont = next] ELSE [r EXCEPT !.pc = next]
\* ... and (after the fix) gives it up at its end if the generation wrapped meanwhile
Done(r) == [r EXCEPT !.pc = "idle", !.ip = @ + 1, !.depth = 0, !.used = TRUE]
EndWith(r, next) ==
  IF WrapMode = "fixed" /\ r.disc /\ r.node # 0 THEN [r EXCEPT !.pc = "X_res", !.after = "wrap", !.cont = next]
  ELSE IF next = "done" THEN Done(r) ELSE [r EXCEPT !.pc = next]

Begin(t) ==
  /\ PC(t) = "idle" /\ HasOp(t)
  /\ LET o == Cur(t) IN
       CASE o.k \in {"load", "loadfull"} ->
              /\ Set(t, With([L(t) EXCEPT !.c = o.c, !.kind = o.k, !.steps = 0, !.stack = <<"top">>, !.depth = 1], LoadEntry))
              /\ Emit(<<InvEv(t, IF o.k = "load" THEN "load" ELSE "load_full", o.c, IF o.k = "load" THEN FreeG(t) ELSE FreeH(t))>>)
              /\ UNCHANGED <<sh, hp>>
         [] o.k \in {"store", "swap"} ->
              /\ hp.free # {} /\ hp.next <= MaxObj
              /\ LET a == CHOOSE x \in hp.free : \A y \in hp.free : x <= y
                     ob == hp.next IN
                 /\ hp' = [hp EXCEPT !.free = @ \ {a}, !.objAt[a] = ob, !.next = @ + 1]
                 /\ Set(t, [L(t) EXCEPT !.pc = "W_swap", !.c = o.c, !.kind = o.k, !.new = a, !.steps = 0, !.depth = 1])
                 /\ Emit(<<InvEv(t, o.k, o.c, IF o.k = "swap" THEN FreeH(t) ELSE 0),
                           [e |-> "alloc", t |-> t, o |-> ob, a |-> a, p |-> -1],
                           [e |-> "arg", t |-> t, v |-> ob]>>)
              /\ UNCHANGED sh
         [] o.k = "rcu" ->
              /\ Set(t, With([L(t) EXCEPT !.c = o.c, !.kind = "rcu", !.steps = 0, !.stack = <<"R_cur">>, !.depth = 1, !.spur = 0], LoadEntry))
              /\ Emit(<<InvEv(t, "rcu", o.c, FreeH(t))>>) /\ UNCHANGED <<sh, hp>>
         [] o.k = "cas" ->     \* compare_and_swap(&handle, fresh value): current = the oldest handle the thread holds
              /\ IF L(t).handles = <<>> THEN Set(t, [L(t) EXCEPT !.ip = @ + 1]) /\ NoEmit /\ UNCHANGED hp
                 ELSE /\ hp.free # {} /\ hp.next <= MaxObj
                      /\ LET a == CHOOSE x \in hp.free : \A y \in hp.free : x <= y
                             ob == hp.next
                             cu == Head(L(t).handles).a IN
                         /\ hp' = [hp EXCEPT !.free = @ \ {a}, !.objAt[a] = ob, !.next = @ + 1]
                         /\ Set(t, With([L(t) EXCEPT !.c = o.c, !.kind = "cas", !.steps = 0, !.stack = <<"R_cmp">>, !.depth = 1, !.spur = 0,
                                                     !.cur = Guard(cu, 0, 0), !.new = a], LoadEntry))
                         /\ Emit(<<[e |-> "inv", t |-> t, op |-> "cas", c |-> o.c, a |-> Obj(cu), b |-> -1, r |-> FreeG(t)],
                                   [e |-> "alloc", t |-> t, o |-> ob, a |-> a, p |-> -1],
                                   [e |-> "arg", t |-> t, v |-> ob]>>)
              /\ UNCHANGED sh
         [] o.k = "dropg" ->
              /\ IF L(t).held = <<>> THEN Set(t, [L(t) EXCEPT !.ip = @ + 1]) /\ NoEmit
                 ELSE LET g == Head(L(t).held) IN
                      /\ Set(t, [L(t) EXCEPT !.pc = "D_pay", !.r = g.g, !.held = Tail(@), !.kind = "dropg", !.steps = 0, !.scan = g.reg])
                      /\ Emit(<<[e |-> "inv", t |-> t, op |-> "drop_g", c |-> -1, a |-> Obj(g.g.a), b |-> 0, r |-> g.reg]>>)
              /\ UNCHANGED <<sh, hp>>
         [] o.k = "dropother" ->   \* drop a guard created by another thread (moved guard, C10)
              /\ LET cands == {u \in Threads \ {t} : th[u].held # <<>>} IN
                 IF cands = {} THEN Set(t, [L(t) EXCEPT !.ip = @ + 1]) /\ NoEmit
                 ELSE LET u == CHOOSE u \in cands : TRUE
                          g == Head(th[u].held) IN
                      /\ th' = [th EXCEPT ![t] = [L(t) EXCEPT !.pc = "D_pay", !.r = g.g, !.kind = "dropg", !.steps = 0, !.scan = g.reg],
                                          ![u] = [th[u] EXCEPT !.held = Tail(@)]]
                      /\ Emit(<<[e |-> "inv", t |-> t, op |-> "drop_g", c |-> -1, a |-> Obj(g.g.a), b |-> 0, r |-> g.reg]>>)
              /\ UNCHANGED <<sh, hp>>
         [] o.k = "droph" ->
              /\ IF L(t).handles = <<>> THEN Set(t, [L(t) EXCEPT !.ip = @ + 1]) /\ NoEmit
                 ELSE LET h == Head(L(t).handles) IN
                      /\ Set(t, [L(t) EXCEPT !.pc = "DH_dec", !.r = Guard(h.a, 0, 0), !.handles = Tail(@), !.kind = "droph", !.steps = 0, !.scan = h.reg])
                      /\ Emit(<<[e |-> "inv", t |-> t, op |-> "drop_h", c |-> -1, a |-> Obj(h.a), b |-> 0, r |-> h.reg]>>)
              /\ UNCHANGED <<sh, hp>>
         [] o.k = "exit" ->
              /\ IF MY(t) = 0 THEN Set(t, [InitTh(t) EXCEPT !.ip = L(t).ip + 1, !.held = L(t).held, !.handles = L(t).handles]) /\ UNCHANGED sh
                 ELSE Set(t, [L(t) EXCEPT !.pc = "X_res", !.after = "exit"]) /\ UNCHANGED sh
              /\ NoEmit /\ UNCHANGED hp
         [] o.k = "cnew" ->     \* Cache::new = load_full (cache.rs:105)
              /\ Set(t, With([L(t) EXCEPT !.c = o.c, !.kind = "cnew", !.steps = 0, !.stack = <<"top">>, !.depth = 1], LoadEntry))
              /\ Emit(<<[e |-> "inv", t |-> t, op |-> "cache_new", c |-> o.c, a |-> 0, b |-> 0, r |-> t]>>) /\ UNCHANGED <<sh, hp>>
         [] o.k = "cload" ->    \* Cache::load: revalidate (cache.rs:159-167)
              /\ IF L(t).cache = 0 THEN Set(t, [L(t) EXCEPT !.ip = @ + 1]) /\ NoEmit
                 ELSE /\ Set(t, [L(t) EXCEPT !.pc = "X_check", !.kind = "cload", !.steps = 0, !.depth = 1])
                      /\ Emit(<<[e |-> "inv", t |-> t, op |-> "cache_load", c |-> -1, a |-> 0, b |-> 0, r |-> t]>>)
              /\ UNCHANGED <<sh, hp>>
         [] o.k = "cdrop" ->
              /\ IF L(t).cache = 0 THEN Set(t, [L(t) EXCEPT !.ip = @ + 1]) /\ NoEmit /\ UNCHANGED hp
                 ELSE /\ Set(t, [L(t) EXCEPT !.cache = 0, !.ip = @ + 1])
                      /\ Emit(<<[e |-> "inv", t |-> t, op |-> "cache_drop", c |-> -1, a |-> 0, b |-> 0, r |-> t]>>
                              \o DecEvs(t, L(t).cache) \o <<RetEv(t, "cache_drop", -1, 0, t, 1)>>)
                      /\ hp' = HpAfterDec(L(t).cache)
              /\ UNCHANGED sh
         [] o.k = "setgen" ->    \* C13: preset the counter so that it wraps after o.c more transactions
              /\ Set(t, [L(t) EXCEPT !.gen = (GenMod - o.c) % GenMod, !.ip = @ + 1]) /\ NoEmit /\ UNCHANGED <<sh, hp>>

\* an operation is finished: next instruction
Finish(t, r) == EndWith(r, "done")

(* ====================================================================== *)
(* Node::get (list.rs:151-194) and cool-down                               *)
(* ====================================================================== *)
N_head(t) ==   \* list.rs:101 LIST_HEAD.load(SeqCst): snapshot of the prepend-only list, newest first
  /\ PC(t) = "N_head"
  /\ Set(t, [L(t) EXCEPT !.wl = [i \in 1..sh.nnodes |-> sh.nnodes + 1 - i], !.pc = "N_next"])
  /\ NoEmit /\ UNCHANGED <<sh, hp>>
N_next(t) ==
  /\ PC(t) = "N_next"
  /\ IF L(t).wl = <<>> THEN
        \* list.rs:176-191 push a new node (Relaxed load + compare_exchange_weak loop: one linearization point)
        /\ sh.nnodes < MaxNodes
        /\ sh' = [sh EXCEPT !.nnodes = @ + 1, !.inuse[sh.nnodes + 1] = "used"]
        /\ Set(t, [L(t) EXCEPT !.node = sh.nnodes + 1, !.pc = L(t).cont, !.wl = <<>>])
     ELSE /\ Set(t, [L(t) EXCEPT !.scan = Head(L(t).wl), !.wl = Tail(@), !.pc = "N_cool"]) /\ UNCHANGED sh
  /\ NoEmit /\ UNCHANGED hp
N_cool(t) ==   \* list.rs:129 in_use.load(Acquire)
  /\ PC(t) = "N_cool"
  /\ Set(t, [L(t) EXCEPT !.pc = IF sh.inuse[L(t).scan] = "cool" THEN "N_wr" ELSE "N_claim"])
  /\ NoEmit /\ UNCHANGED <<sh, hp>>
N_wr(t) ==     \* list.rs:133 active_writers.load(Relaxed)
  /\ PC(t) = "N_wr"
  \* (seeded model bug "cooldown_wait" = seeded change e09: `while` instead of `if` - wait until the writers have left)
  /\ Set(t, [L(t) EXCEPT !.pc = IF sh.wr[L(t).scan] = 0 THEN "N_uncool" ELSE IF Bug = "cooldown_wait" THEN "N_cool" ELSE "N_claim"])
  /\ NoEmit /\ UNCHANGED <<sh, hp>>
N_uncool(t) == \* list.rs:134 compare_exchange(COOLDOWN, UNUSED)
  /\ PC(t) = "N_uncool"
  /\ sh' = [sh EXCEPT !.inuse[L(t).scan] = IF @ = "cool" THEN "unused" ELSE @]
  /\ Set(t, [L(t) EXCEPT !.pc = "N_claim"]) /\ NoEmit /\ UNCHANGED hp
N_claim(t) ==  \* list.rs:155 compare_exchange(UNUSED, USED, SeqCst)
  /\ PC(t) = "N_claim"
  /\ IF sh.inuse[L(t).scan] = "unused"
     THEN /\ sh' = [sh EXCEPT !.inuse[L(t).scan] = "used"]
          /\ Set(t, [L(t) EXCEPT !.node = L(t).scan, !.pc = L(t).cont, !.wl = <<>>, !.scan = 0])
     ELSE /\ Set(t, [L(t) EXCEPT !.pc = "N_next"]) /\ UNCHANGED sh
  /\ NoEmit /\ UNCHANGED hp

\* start_cooldown (list.rs:113-118): reserve_writer, swap(COOLDOWN, Release), release reservation
X_res(t) ==
  /\ PC(t) = "X_res"
  /\ sh' = [sh EXCEPT !.wr[MY(t)] = @ + 1] /\ Set(t, [L(t) EXCEPT !.pc = "X_cool"]) /\ NoEmit /\ UNCHANGED hp
X_cool(t) ==
  /\ PC(t) = "X_cool"
  /\ sh' = [sh EXCEPT !.inuse[MY(t)] = "cool"]
  /\ Set(t, [L(t) EXCEPT !.pc = "X_rel"])
  /\ IF sh.inuse[MY(t)] # "used" THEN Fail("NoPanic: assert_eq!(NODE_USED, in_use.swap(..)) list.rs:117") ELSE NoEmit
  /\ UNCHANGED hp
X_rel(t) ==
  /\ PC(t) = "X_rel"
  /\ sh' = [sh EXCEPT !.wr[MY(t)] = @ - 1]
  /\ LET r == L(t) IN
     Set(t, CASE r.after = "exit" -> [InitTh(t) EXCEPT !.ip = r.ip + 1, !.held = r.held, !.handles = r.handles]
              [] r.after = "wrap" -> IF r.cont = "done" THEN Done([r EXCEPT !.node = 0, !.disc = FALSE])
                                     ELSE [r EXCEPT !.node = 0, !.disc = FALSE, !.pc = r.cont]
              [] OTHER (* "mid": 1.7.1 cools down in the middle of the transaction, list.rs:285-286 *)
                       -> [r EXCEPT !.node = 0, !.disc = FALSE, !.pc = "F_cand", !.hnode = r.node])
  /\ NoEmit /\ UNCHANGED hp

(* ====================================================================== *)
(* load: fast path (hybrid.rs:42-64, fast.rs:43-66)                        *)
(* ====================================================================== *)
\* return of a load to its caller: top-level operations finish here, nested ones continue
Return(t, r, g, pre) ==
  LET lbl == Head(r.stack)
      r1  == [r EXCEPT !.stack = Tail(@), !.r = g] IN
  CASE lbl = "top" /\ r.kind = "load" ->
         /\ Set(t, Finish(t, [r1 EXCEPT !.held = Append(@, [g |-> g, reg |-> FreeG(t)])]))
         /\ Emit(pre \o <<RetEv(t, "load", r.c, Obj(g.a), FreeG(t), r.steps)>>)
    [] lbl = "top" (* load_full, Cache::new, the reload of Cache::load *) -> Set(t, EndWith([r1 EXCEPT !.iafter = "LF"], "I_start")) /\ Emit(pre)
    [] lbl = "H_into" (* nested inside a writer: not an outermost use *) -> Set(t, [r1 EXCEPT !.pc = lbl]) /\ Emit(pre)
    [] OTHER -> Set(t, EndWith(r1, lbl)) /\ Emit(pre)

L_first(t) ==  \* hybrid.rs:44 storage.load(Relaxed)
  /\ PC(t) = "L_first"
  /\ Set(t, Step1([L(t) EXCEPT !.ptr = sh.storage[L(t).c], !.pc = IF NF = 0 THEN "F_addr" ELSE "L_probe"]))
  /\ NoEmit /\ UNCHANGED <<sh, hp>>
\* rotation order of the probe: (i + offset) % len
ProbeOrder(off) == [i \in 1..NF |-> ((i - 1 + off) % NF) + 1]
L_probe(t) ==  \* fast.rs:54 Relaxed loads of the own slots (one step, see header)
  /\ PC(t) = "L_probe"
  /\ LET ord == ProbeOrder(L(t).offset)
         free == {k \in 1..NF : sh.fast[MY(t)][ord[k]] = NONE} IN
     IF free = {} THEN Set(t, Step1([L(t) EXCEPT !.pc = "F_addr"]))
     ELSE LET k == CHOOSE k \in free : \A j \in free : k <= j IN
          Set(t, Step1([L(t) EXCEPT !.slot = ord[k], !.pc = "L_slot"]))
  /\ (IF MY(t) = 0 THEN Fail("NoPanic: LocalNode::with ensures it is set (new_fast)") ELSE NoEmit)
  /\ UNCHANGED <<sh, hp>>
L_slot(t) ==   \* fast.rs:58 slot.swap(ptr, SeqCst)
  /\ PC(t) = "L_slot"
  /\ sh' = [sh EXCEPT !.fast[MY(t)][L(t).slot] = L(t).ptr]
  /\ Set(t, Step1([L(t) EXCEPT !.offset = L(t).slot % NF, !.pc = "L_confirm"]))
  /\ NoEmit /\ UNCHANGED hp
L_confirm(t) == \* hybrid.rs:51 storage.load(SeqCst)
  /\ PC(t) = "L_confirm"
  /\ IF sh.storage[L(t).c] = L(t).ptr \/ Bug = "confirm_ignored"
     THEN Return(t, Step1(L(t)), Guard(L(t).ptr, MY(t), L(t).slot), <<>>)
     ELSE Set(t, Step1([L(t) EXCEPT !.pc = "L_pay"])) /\ NoEmit
  /\ UNCHANGED <<sh, hp>>
L_pay(t) ==    \* hybrid.rs:55 debt.pay (compare_exchange(ptr, NONE, Release, Relaxed))
  /\ PC(t) = "L_pay"
  /\ IF sh.fast[MY(t)][L(t).slot] = L(t).ptr
     THEN /\ sh' = [sh EXCEPT !.fast[MY(t)][L(t).slot] = NONE]
          /\ Set(t, Step1([L(t) EXCEPT !.pc = "F_addr"])) /\ NoEmit
     ELSE /\ UNCHANGED sh   \* somebody paid the debt: the reference is ours
          /\ Return(t, Step1(L(t)), Guard(L(t).ptr, 0, 0), <<>>)
  /\ UNCHANGED hp

(* ====================================================================== *)
(* load: fallback / helping (hybrid.rs:67-94, helping.rs:186-213,301-333)  *)
(* ====================================================================== *)
F_addr(t) ==   \* helping.rs:203 active_addr.store(ptr, SeqCst)
  /\ PC(t) = "F_addr"
  /\ sh' = [sh EXCEPT !.addr[MY(t)] = L(t).c]
  /\ Set(t, Step1([L(t) EXCEPT !.gen = (@ + 1) % GenMod, !.pc = "F_ctrl", !.hnode = MY(t)]))
  /\ (IF MY(t) = 0 THEN Fail("NoPanic: LocalNode::with ensures it is set (new_helping)") ELSE NoEmit)
  /\ UNCHANGED hp
F_ctrl(t) ==   \* helping.rs:209 control.swap(gen, SeqCst)
  /\ PC(t) = "F_ctrl"
  /\ sh' = [sh EXCEPT !.ctrl[MY(t)] = GenV(L(t).gen)]
  \* (seeded model bug "wrap_not_detected" = seeded change g13: the node is never given up, the generations repeat)
  /\ LET wrapped == L(t).gen = 0 /\ Bug # "wrap_not_detected" IN
     IF wrapped /\ WrapMode = "code"
     THEN Set(t, Step1([L(t) EXCEPT !.pc = "X_res", !.after = "mid"]))
     ELSE Set(t, Step1([L(t) EXCEPT !.pc = "F_cand", !.disc = (@ \/ wrapped)]))
  /\ (IF sh.ctrl[MY(t)] # IDLE THEN Fail("NoPanic: Left control in wrong state helping.rs:210") ELSE NoEmit)
  /\ UNCHANGED hp
F_cand(t) ==   \* hybrid.rs:74 storage.load(Acquire)
  /\ PC(t) = "F_cand"
  /\ Set(t, Step1([L(t) EXCEPT !.cand = sh.storage[L(t).c], !.pc = "F_hslot"]))
  /\ NoEmit /\ UNCHANGED <<sh, hp>>
F_hslot(t) ==  \* helping.rs:312 slot.swap(ptr, SeqCst)    (confirm_helping: list.rs:302 expects the node)
  /\ PC(t) = "F_hslot"
  /\ IF MY(t) = 0
     THEN /\ Fail("NoPanic: LocalNode::with ensures it is set (confirm_helping) list.rs:302")
          /\ Set(t, [L(t) EXCEPT !.pc = "dead"]) /\ UNCHANGED sh
     ELSE /\ sh' = [sh EXCEPT !.hslot[MY(t)] = L(t).cand]
          /\ Set(t, Step1([L(t) EXCEPT !.pc = "F_conf"]))
          /\ (IF sh.hslot[MY(t)] # NONE THEN Fail("NoPanic: helping slot not empty helping.rs:313") ELSE NoEmit)
  /\ UNCHANGED hp
F_conf(t) ==   \* helping.rs:317 control.swap(IDLE, SeqCst)
  /\ PC(t) = "F_conf"
  \* (seeded model bug "wait_for_help", negative control of Termination: the reader insists on being helped)
  /\ (Bug = "wait_for_help" => sh.ctrl[MY(t)] # GenV(L(t).gen))
  /\ sh' = [sh EXCEPT !.ctrl[MY(t)] = IDLE]
  /\ LET cv == sh.ctrl[MY(t)] IN
     IF cv = GenV(L(t).gen) THEN Set(t, Step1([L(t) EXCEPT !.pc = "F_inc"])) /\ NoEmit
     ELSE IF cv.k = "repl" THEN Set(t, Step1([L(t) EXCEPT !.e = cv.e, !.pc = "F_env"])) /\ NoEmit
     ELSE Set(t, [L(t) EXCEPT !.pc = "dead"]) /\ Fail("NoPanic: control is neither our generation nor a replacement helping.rs:323")
  /\ UNCHANGED hp
F_inc(t) ==    \* hybrid.rs:81 into_inner: T::inc
  /\ PC(t) = "F_inc"
  /\ Emit(<<IncEv(t, L(t).cand)>>)
  /\ Set(t, Step1([L(t) EXCEPT !.pc = "F_pay"])) /\ UNCHANGED <<sh, hp>>
F_pay(t) ==    \* hybrid.rs:81 into_inner: debt.pay
  /\ PC(t) = "F_pay"
  /\ IF sh.hslot[MY(t)] = L(t).cand /\ Bug # "helping_slot_not_paid"
     THEN /\ sh' = [sh EXCEPT !.hslot[MY(t)] = NONE]
          /\ Return(t, Step1(L(t)), Guard(L(t).cand, 0, 0), <<>>)
     ELSE /\ Set(t, Step1([L(t) EXCEPT !.pc = "F_dec", !.repl = L(t).cand])) /\ NoEmit /\ UNCHANGED sh
  /\ UNCHANGED hp
F_dec(t) ==    \* hybrid.rs:81/87 T::dec(candidate): the writer paid as well
  /\ PC(t) = "F_dec"
  /\ hp' = HpAfterDec(L(t).cand)
  /\ Return(t, Step1(L(t)), Guard(L(t).repl, 0, 0), DecEvs(t, L(t).cand)) /\ UNCHANGED sh
F_env(t) ==    \* helping.rs:325 handover.load(SeqCst)
  /\ PC(t) = "F_env"
  /\ Set(t, Step1([L(t) EXCEPT !.repl = sh.env[L(t).e], !.pc = "F_space"])) /\ NoEmit /\ UNCHANGED <<sh, hp>>
F_space(t) ==  \* helping.rs:327 space_offer.store(handover, SeqCst)
  /\ PC(t) = "F_space"
  /\ sh' = [sh EXCEPT !.space[MY(t)] = L(t).e]
  /\ Set(t, Step1([L(t) EXCEPT !.pc = "F_pay2"])) /\ NoEmit /\ UNCHANGED hp
F_pay2(t) ==   \* hybrid.rs:86 unused_debt.pay(candidate)
  /\ PC(t) = "F_pay2"
  /\ IF sh.hslot[MY(t)] = L(t).cand
     THEN /\ sh' = [sh EXCEPT !.hslot[MY(t)] = NONE]
          /\ Return(t, Step1(L(t)), Guard(L(t).repl, 0, 0), <<>>)
     ELSE /\ Set(t, Step1([L(t) EXCEPT !.pc = "F_dec"])) /\ NoEmit /\ UNCHANGED sh
  /\ UNCHANGED hp

(* ====================================================================== *)
(* Guard::into_inner (hybrid.rs:135-153) and guard / handle drop           *)
(* ====================================================================== *)
\* r = the guard; after = "LF" (load_full), "H" (help: replacement().into_inner())
I_start(t) ==
  /\ PC(t) = "I_start"
  /\ IF L(t).r.i = 0 THEN Set(t, [L(t) EXCEPT !.pc = "I_done"]) /\ NoEmit
     ELSE Set(t, Step1([L(t) EXCEPT !.pc = "I_pay"])) /\ Emit(<<IncEv(t, L(t).r.a)>>)   \* hybrid.rs:141 T::inc
  /\ UNCHANGED <<sh, hp>>
SlotVal(g) == IF g.i = -1 THEN sh.hslot[g.n] ELSE sh.fast[g.n][g.i]
SlotClr(g) == IF g.i = -1 THEN [sh EXCEPT !.hslot[g.n] = NONE] ELSE [sh EXCEPT !.fast[g.n][g.i] = NONE]
I_pay(t) ==    \* hybrid.rs:142 debt.pay
  /\ PC(t) = "I_pay"
  /\ IF SlotVal(L(t).r) = L(t).r.a
     THEN sh' = SlotClr(L(t).r) /\ Set(t, Step1([L(t) EXCEPT !.pc = "I_done"]))
     ELSE UNCHANGED sh /\ Set(t, Step1([L(t) EXCEPT !.pc = "I_dec"]))
  /\ NoEmit /\ UNCHANGED hp
I_dec(t) ==    \* hybrid.rs:143 T::dec
  /\ PC(t) = "I_dec"
  /\ Emit(DecEvs(t, L(t).r.a)) /\ hp' = HpAfterDec(L(t).r.a)
  /\ Set(t, Step1([L(t) EXCEPT !.pc = "I_done"])) /\ UNCHANGED sh
I_done(t) ==
  /\ PC(t) = "I_done"
  /\ IF L(t).iafter = "LF"
     THEN CASE L(t).kind = "cnew" ->
                 /\ Set(t, Done([L(t) EXCEPT !.cache = L(t).r.a]))
                 /\ Emit(<<RetEv(t, "cache_new", L(t).c, Obj(L(t).r.a), t, L(t).steps)>>) /\ UNCHANGED hp
            [] L(t).kind = "cload" ->   \* self.cached = load_full(): the superseded value is released here
                 /\ Set(t, Done([L(t) EXCEPT !.cache = L(t).r.a]))
                 /\ Emit(DecEvs(t, L(t).cache) \o <<RetEv(t, "cache_load", -1, Obj(L(t).r.a), t, L(t).steps)>>)
                 /\ hp' = HpAfterDec(L(t).cache)
            [] OTHER ->
                 /\ Set(t, Done([L(t) EXCEPT !.handles = Append(@, [a |-> L(t).r.a, reg |-> FreeH(t)])]))
                 /\ Emit(<<RetEv(t, "load_full", L(t).c, Obj(L(t).r.a), FreeH(t), L(t).steps)>>) /\ UNCHANGED hp
     ELSE Set(t, [L(t) EXCEPT !.pc = "H_their"]) /\ NoEmit /\ UNCHANGED hp
  /\ UNCHANGED sh

X_check(t) ==  \* cache.rs:164 arc_swap.ptr.load(Relaxed) compared with the address of the retained value
  /\ PC(t) = "X_check"
  /\ IF sh.storage[L(t).c] = L(t).cache \/ Bug = "cache_never_revalidates"
     THEN /\ Set(t, Done(Step1(L(t))))
          /\ Emit(<<RetEv(t, "cache_load", -1, Obj(L(t).cache), t, L(t).steps + 1)>>)
     ELSE /\ Set(t, With(Step1([L(t) EXCEPT !.stack = <<"top">>]), LoadEntry)) /\ NoEmit
  /\ UNCHANGED <<sh, hp>>

D_pay(t) ==    \* hybrid.rs:113 debt.pay on guard drop
  /\ PC(t) = "D_pay"
  /\ IF L(t).r.i # 0 /\ SlotVal(L(t).r) = L(t).r.a
     THEN /\ sh' = SlotClr(L(t).r)
          /\ Set(t, [L(t) EXCEPT !.pc = "idle", !.ip = @ + 1])
          /\ Emit(<<RetEv(t, "drop_g", -1, Obj(L(t).r.a), L(t).scan, 1)>>)
     ELSE /\ UNCHANGED sh /\ Set(t, [L(t) EXCEPT !.pc = "D_dec"]) /\ NoEmit
  /\ UNCHANGED hp
D_dec(t) ==    \* hybrid.rs:121 ManuallyDrop::drop
  /\ PC(t) = "D_dec"
  /\ Emit(DecEvs(t, L(t).r.a) \o <<RetEv(t, "drop_g", -1, Obj(L(t).r.a), L(t).scan, 2)>>)
  /\ hp' = HpAfterDec(L(t).r.a)
  /\ Set(t, [L(t) EXCEPT !.pc = "idle", !.ip = @ + 1]) /\ UNCHANGED sh
DH_dec(t) ==
  /\ PC(t) = "DH_dec"
  /\ Emit(DecEvs(t, L(t).r.a) \o <<RetEv(t, "drop_h", -1, Obj(L(t).r.a), L(t).scan, 1)>>)
  /\ hp' = HpAfterDec(L(t).r.a)
  /\ Set(t, [L(t) EXCEPT !.pc = "idle", !.ip = @ + 1]) /\ UNCHANGED sh

(* ====================================================================== *)
(* swap / store and Debt::pay_all (lib.rs:465-478, debt/mod.rs:81-114)     *)
(* ====================================================================== *)
W_swap(t) ==   \* lib.rs:472 ptr.swap(new, SeqCst)
  /\ PC(t) = "W_swap"
  /\ sh' = [sh EXCEPT !.storage[L(t).c] = L(t).new]
  /\ Set(t, With(Step1([L(t) EXCEPT !.old = sh.storage[L(t).c]]), "W_inc"))   \* pay_all: LocalNode::with
  /\ Emit(<<[e |-> "w", t |-> t, c |-> L(t).c, old |-> Obj(sh.storage[L(t).c]), new |-> Obj(L(t).new)]>>)
  /\ UNCHANGED hp
W_inc(t) ==    \* debt/mod.rs:89 T::inc(&val): pre-pay one reference
  /\ PC(t) = "W_inc"
  /\ Emit(<<IncEv(t, L(t).old)>>)
  /\ Set(t, Step1([L(t) EXCEPT !.pc = "W_head"])) /\ UNCHANGED <<sh, hp>>
W_head(t) ==   \* list.rs:101 LIST_HEAD.load(SeqCst)
  /\ PC(t) = "W_head"
  /\ Set(t, Step1([L(t) EXCEPT !.todo = [i \in 1..sh.nnodes |-> sh.nnodes + 1 - i], !.pc = "W_next"]))
  /\ NoEmit /\ UNCHANGED <<sh, hp>>
W_next(t) ==
  /\ PC(t) = "W_next"
  /\ IF L(t).todo = <<>> THEN Set(t, [L(t) EXCEPT !.pc = "W_dec"])
     ELSE Set(t, [L(t) EXCEPT !.m = Head(L(t).todo), !.todo = Tail(@), !.pc = "W_res"])
  /\ NoEmit /\ UNCHANGED <<sh, hp>>
W_res(t) ==    \* list.rs:143 active_writers.fetch_add(1, Acquire)
  /\ PC(t) = "W_res"
  /\ sh' = [sh EXCEPT !.wr[L(t).m] = @ + 1]
  /\ Set(t, Step1([L(t) EXCEPT !.pc = "H_ctrl"])) /\ NoEmit /\ UNCHANGED hp

\* ---- help (helping.rs:215-297); own node = MY(t), who = m
H_ctrl(t) ==   \* helping.rs:222 who.control.load(SeqCst)
  /\ PC(t) = "H_ctrl"
  \* (seeded model bugs "space_hoisted" / "addr_hoisted": their_space / active_addr read ONCE, next to the first
  \*  control read, instead of inside the retry loop - the loop may continue on a NEWER transaction of the reader)
  /\ Set(t, Step1([L(t) EXCEPT !.control = sh.ctrl[L(t).m], !.pc = "H_sw",
                                !.ts = IF Bug = "space_hoisted" THEN sh.space[L(t).m] ELSE @,
                                !.ha = IF Bug = "addr_hoisted" THEN sh.addr[L(t).m] ELSE @]))
  /\ (IF MY(t) = 0 THEN Fail("NoPanic: LocalNode::with ensures it is set (help) list.rs:320") ELSE NoEmit)
  /\ UNCHANGED <<sh, hp>>
PaySlots == [i \in 1..(NF + 1) |-> IF i <= NF THEN i ELSE -1]
H_sw(t) ==     \* the match on control & TAG_MASK
  /\ PC(t) = "H_sw"
  /\ IF L(t).control.k = "gen" /\ Bug # "no_help"
     THEN /\ Set(t, [L(t) EXCEPT !.pc = "H_addr"])
          /\ (IF L(t).m = MY(t) THEN Fail("NoPanic: Refusing to help myself helping.rs:231") ELSE NoEmit)
     ELSE Set(t, [L(t) EXCEPT !.pc = "P_slot", !.ps = PaySlots]) /\ NoEmit
  /\ UNCHANGED <<sh, hp>>
H_addr(t) ==   \* helping.rs:239 who.active_addr.load(SeqCst)
  /\ PC(t) = "H_addr"
  /\ IF (IF Bug = "addr_hoisted" THEN L(t).ha ELSE sh.addr[L(t).m]) # L(t).c
     THEN Set(t, Step1([L(t) EXCEPT !.pc = "H_re"]))
     ELSE \* helping.rs:258 replacement(): a full nested load on our own node
          Set(t, Step1([L(t) EXCEPT !.pc = LoadEntry, !.stack = <<"H_into">> \o @,
                                    !.ptr = 0, !.slot = 0, !.cand = 0]))
  /\ NoEmit /\ UNCHANGED <<sh, hp>>
H_re(t) ==     \* helping.rs:242 who.control.load(SeqCst): re-confirm
  /\ PC(t) = "H_re"
  /\ IF sh.ctrl[L(t).m] = L(t).control
     THEN Set(t, Step1([L(t) EXCEPT !.pc = "P_slot", !.ps = PaySlots]))
     ELSE Set(t, Step1([L(t) EXCEPT !.control = sh.ctrl[L(t).m], !.pc = "H_sw"]))
  /\ NoEmit /\ UNCHANGED <<sh, hp>>
H_into(t) ==   \* .into_inner() of the nested guard
  /\ PC(t) = "H_into"
  /\ Set(t, [L(t) EXCEPT !.pc = "I_start", !.iafter = "H"]) /\ NoEmit /\ UNCHANGED <<sh, hp>>
H_their(t) ==  \* helping.rs:263 who.space_offer.load(SeqCst)
  /\ PC(t) = "H_their"
  /\ Set(t, Step1([L(t) EXCEPT !.ts = IF Bug = "space_hoisted" THEN @ ELSE sh.space[L(t).m], !.pc = "H_mine"])) /\ NoEmit /\ UNCHANGED <<sh, hp>>
H_mine(t) ==   \* helping.rs:265 self.space_offer.load(SeqCst)
  /\ PC(t) = "H_mine"
  /\ Set(t, Step1([L(t) EXCEPT !.ms = sh.space[IF MY(t) = 0 THEN L(t).hnode ELSE MY(t)], !.pc = "H_envst"]))
  /\ NoEmit /\ UNCHANGED <<sh, hp>>
H_envst(t) ==  \* helping.rs:269 (*my_space).0.store(replace_addr, SeqCst)
  /\ PC(t) = "H_envst"
  /\ sh' = [sh EXCEPT !.env[L(t).ms] = L(t).r.a]
  /\ Set(t, Step1([L(t) EXCEPT !.pc = "H_cas"])) /\ NoEmit /\ UNCHANGED hp
H_cas(t) ==    \* helping.rs:279 who.control.compare_exchange(control, space_addr, SeqCst, SeqCst)
  /\ PC(t) = "H_cas"
  /\ IF sh.ctrl[L(t).m] = L(t).control
     THEN /\ sh' = [sh EXCEPT !.ctrl[L(t).m] = Repl(L(t).ms)]
          /\ Set(t, Step1([L(t) EXCEPT !.pc = "H_spacest"])) /\ NoEmit
     ELSE /\ UNCHANGED sh
          /\ Set(t, Step1([L(t) EXCEPT !.control = sh.ctrl[L(t).m], !.pc = "H_drop"])) /\ NoEmit
  /\ UNCHANGED hp
H_spacest(t) == \* helping.rs:284 self.space_offer.store(their_space, SeqCst); the count went with the envelope
  /\ PC(t) = "H_spacest"
  /\ sh' = [sh EXCEPT !.space[IF MY(t) = 0 THEN L(t).hnode ELSE MY(t)] = L(t).ts]
  /\ Set(t, Step1([L(t) EXCEPT !.pc = "P_slot", !.ps = PaySlots])) /\ NoEmit /\ UNCHANGED hp
H_drop(t) ==   \* the replacement is dropped at the end of the loop body (helping.rs:290-294)
  /\ PC(t) = "H_drop"
  /\ Emit(DecEvs(t, L(t).r.a)) /\ hp' = HpAfterDec(L(t).r.a)
  /\ Set(t, Step1([L(t) EXCEPT !.pc = "H_sw"])) /\ UNCHANGED sh

P_slot(t) ==   \* debt/mod.rs:104 slot.pay(ptr) for each fast slot, then the helping slot
  /\ PC(t) = "P_slot"
  /\ IF L(t).ps = <<>> THEN Set(t, [L(t) EXCEPT !.pc = "W_rel"]) /\ NoEmit /\ UNCHANGED sh
     ELSE LET i == Head(L(t).ps)
              g == Guard(L(t).old, L(t).m, i) IN
          IF SlotVal(g) = L(t).old /\ ~(Bug = "helping_not_walked" /\ i = -1)
          THEN /\ sh' = SlotClr(g)
               /\ Set(t, Step1([L(t) EXCEPT !.ps = Tail(@), !.pc = "P_inc"])) /\ NoEmit
          ELSE /\ UNCHANGED sh /\ Set(t, Step1([L(t) EXCEPT !.ps = Tail(@)])) /\ NoEmit
  /\ UNCHANGED hp
P_inc(t) ==    \* debt/mod.rs:106 T::inc(&val): pre-pay one more
  /\ PC(t) = "P_inc"
  /\ Emit(<<IncEv(t, L(t).old)>>)
  /\ Set(t, Step1([L(t) EXCEPT !.pc = "P_slot"])) /\ UNCHANGED <<sh, hp>>
W_rel(t) ==    \* list.rs:56 active_writers.fetch_sub(1, Release)
  /\ PC(t) = "W_rel"
  /\ sh' = [sh EXCEPT !.wr[L(t).m] = @ - 1]
  /\ Set(t, Step1([L(t) EXCEPT !.pc = "W_next"])) /\ NoEmit /\ UNCHANGED hp
W_dec(t) ==    \* debt/mod.rs:113 implicit dec of the pre-paid reference
  /\ PC(t) = "W_dec"
  /\ Emit(DecEvs(t, L(t).old)) /\ hp' = HpAfterDec(L(t).old)
  /\ Set(t, EndWith(Step1(L(t)), IF L(t).kind \in {"rcu", "cas"} THEN "R_dec" ELSE "W_ret")) /\ UNCHANGED sh
W_ret(t) ==
  /\ PC(t) = "W_ret"
  /\ IF L(t).kind = "swap"
     THEN /\ Set(t, Done([L(t) EXCEPT !.handles = Append(@, [a |-> L(t).old, reg |-> FreeH(t)])]))
          /\ Emit(<<RetEv(t, "swap", L(t).c, Obj(L(t).old), FreeH(t), L(t).steps)>>) /\ UNCHANGED hp
     ELSE \* store: drop(self.swap(val)) lib.rs:461
          /\ Set(t, Done(L(t)))
          /\ Emit(DecEvs(t, L(t).old) \o <<RetEv(t, "store", L(t).c, 0, 0, L(t).steps)>>)
          /\ hp' = HpAfterDec(L(t).old)
  /\ UNCHANGED sh

(* ====================================================================== *)
(* rcu = load + closure + compare_and_swap loop (lib.rs:609-619,           *)
(* hybrid.rs:207-233)                                                      *)
(* ====================================================================== *)
R_cur(t) ==    \* cur = self.load(); new = f(&cur)
  /\ PC(t) = "R_cur"
  /\ hp.free # {} /\ hp.next <= MaxObj
  /\ LET a == CHOOSE x \in hp.free : \A y \in hp.free : x <= y
         ob == hp.next IN
     /\ hp' = [hp EXCEPT !.free = @ \ {a}, !.objAt[a] = ob, !.next = @ + 1]
     /\ Set(t, With([L(t) EXCEPT !.cur = L(t).r, !.new = a, !.stack = <<"R_cmp">>], LoadEntry))
     /\ Emit(<<[e |-> "rcu_f", t |-> t, c |-> L(t).c, cur |-> Obj(L(t).r.a), k |-> 1],
               [e |-> "alloc", t |-> t, o |-> ob, a |-> a, p |-> Obj(L(t).r.a)]>>)
  /\ UNCHANGED sh
R_cmp(t) ==    \* hybrid.rs:216 old.as_ptr() != current.as_raw()
  /\ PC(t) = "R_cmp"
  /\ IF L(t).r.a # L(t).cur.a
     THEN \* compare_and_swap returns old; rcu: not swapped -> new is dropped, cur = prev (the old cur guard is dropped)
          Set(t, [L(t) EXCEPT !.pc = IF L(t).kind = "cas" THEN "K_rej" ELSE "R_dropnew", !.prev = L(t).r])
     ELSE Set(t, [L(t) EXCEPT !.pc = "R_cx", !.prev = L(t).r])
  /\ NoEmit /\ UNCHANGED <<sh, hp>>
R_cx(t) ==     \* hybrid.rs:221 storage.compare_exchange_weak(current, new, SeqCst, Relaxed)
  /\ PC(t) = "R_cx"
  /\ \/ /\ sh.storage[L(t).c] = L(t).cur.a
        /\ sh' = [sh EXCEPT !.storage[L(t).c] = L(t).new]
        /\ Set(t, With(Step1([L(t) EXCEPT !.old = L(t).cur.a]), "W_inc"))
        /\ Emit(<<[e |-> "w", t |-> t, c |-> L(t).c, old |-> Obj(L(t).cur.a), new |-> Obj(L(t).new)]>>)
     \/ /\ (sh.storage[L(t).c] # L(t).cur.a \/ L(t).spur < MaxSpur)
        /\ UNCHANGED sh /\ NoEmit
        \* failed (really or spuriously): drop old guard, loop: load again
        /\ Set(t, Step1([L(t) EXCEPT !.spur = IF sh.storage[L(t).c] = L(t).cur.a THEN @ + 1 ELSE @, !.pc = "R_dropold"]))
  /\ UNCHANGED hp
\* drop of a guard held in r (debt or owned), then continue at `after`
G_pay(t) ==
  /\ PC(t) = "G_pay"
  /\ IF L(t).r.i # 0 /\ SlotVal(L(t).r) = L(t).r.a
     THEN sh' = SlotClr(L(t).r) /\ Set(t, Step1([L(t) EXCEPT !.pc = L(t).after])) /\ NoEmit /\ UNCHANGED hp
     ELSE /\ UNCHANGED sh /\ Emit(DecEvs(t, L(t).r.a)) /\ hp' = HpAfterDec(L(t).r.a)
          /\ Set(t, Step1([L(t) EXCEPT !.pc = L(t).after]))
R_dropold(t) == \* the guard `old` of the failed iteration goes out of scope; loop (hybrid.rs:213)
  /\ PC(t) = "R_dropold"
  /\ Set(t, [L(t) EXCEPT !.r = L(t).prev, !.pc = "G_pay", !.after = "R_again"]) /\ NoEmit /\ UNCHANGED <<sh, hp>>
R_again(t) ==
  /\ PC(t) = "R_again"
  /\ Set(t, With([L(t) EXCEPT !.stack = <<"R_cmp">>], LoadEntry)) /\ NoEmit /\ UNCHANGED <<sh, hp>>
R_dropnew(t) == \* rejected new value loses its reference (dropped inside compare_and_swap)
  /\ PC(t) = "R_dropnew"
  /\ Emit(DecEvs(t, L(t).new)) /\ hp' = HpAfterDec(L(t).new)
  \* rcu: cur = prev; the previous cur guard is dropped, then f is called again
  /\ Set(t, [L(t) EXCEPT !.pc = "R_swapcur"]) /\ UNCHANGED sh
R_swapcur(t) ==
  /\ PC(t) = "R_swapcur"
  /\ Set(t, [L(t) EXCEPT !.r = L(t).cur, !.cur = L(t).prev, !.pc = "G_pay", !.after = "R_refresh"])
  /\ NoEmit /\ UNCHANGED <<sh, hp>>
R_refresh(t) == \* back at the top of rcu's loop with r := cur
  /\ PC(t) = "R_refresh"
  /\ Set(t, [L(t) EXCEPT !.r = L(t).cur, !.pc = "R_cur"]) /\ NoEmit /\ UNCHANGED <<sh, hp>>
R_dec(t) ==    \* hybrid.rs:230 T::dec(old.as_ptr()): one count came out of the storage, one is in `old`
  /\ PC(t) = "R_dec"
  /\ Emit(DecEvs(t, L(t).old)) /\ hp' = HpAfterDec(L(t).old)
  /\ Set(t, Step1([L(t) EXCEPT !.r = L(t).prev, !.pc = IF L(t).kind = "cas" THEN "K_ret" ELSE "RI_start"])) /\ UNCHANGED sh
\* success: compare_and_swap returns `old` (the guard of the last load = r); rcu returns Guard::into_inner(prev),
\* then `cur` goes out of scope
RI_start(t) ==
  /\ PC(t) = "RI_start"
  /\ IF L(t).r.i = 0 THEN Set(t, [L(t) EXCEPT !.pc = "R_dropcur"]) /\ NoEmit
     ELSE Set(t, Step1([L(t) EXCEPT !.pc = "RI_pay"])) /\ Emit(<<IncEv(t, L(t).r.a)>>)
  /\ UNCHANGED <<sh, hp>>
RI_pay(t) ==
  /\ PC(t) = "RI_pay"
  /\ IF SlotVal(L(t).r) = L(t).r.a
     THEN sh' = SlotClr(L(t).r) /\ Set(t, Step1([L(t) EXCEPT !.pc = "R_dropcur"])) /\ NoEmit /\ UNCHANGED hp
     ELSE /\ UNCHANGED sh /\ Emit(DecEvs(t, L(t).r.a)) /\ hp' = HpAfterDec(L(t).r.a)
          /\ Set(t, Step1([L(t) EXCEPT !.pc = "R_dropcur"]))
R_dropcur(t) ==
  /\ PC(t) = "R_dropcur"
  /\ Set(t, [L(t) EXCEPT !.r = L(t).cur, !.pc = "G_pay", !.after = "R_ret"])
  /\ NoEmit /\ UNCHANGED <<sh, hp>>
\* compare_and_swap proper: rejected -> the new value is released, the guard of the current value is returned
K_rej(t) ==    \* hybrid.rs drop(new) on the rejected path
  /\ PC(t) = "K_rej"
  /\ Emit(DecEvs(t, L(t).new)) /\ hp' = HpAfterDec(L(t).new)
  /\ Set(t, Step1([L(t) EXCEPT !.pc = "K_ret"])) /\ UNCHANGED sh
K_ret(t) ==    \* returns `old` (a guard) in both cases
  /\ PC(t) = "K_ret"
  /\ Set(t, Done([L(t) EXCEPT !.held = Append(@, [g |-> L(t).prev, reg |-> FreeG(t)])]))
  /\ Emit(<<RetEv(t, "cas", L(t).c, Obj(L(t).prev.a), FreeG(t), L(t).steps)>>)
  /\ UNCHANGED <<sh, hp>>
R_ret(t) ==
  /\ PC(t) = "R_ret"
  /\ Set(t, Done([L(t) EXCEPT !.handles = Append(@, [a |-> L(t).old, reg |-> FreeH(t)])]))
  /\ Emit(<<RetEv(t, "rcu", L(t).c, Obj(L(t).old), FreeH(t), L(t).steps)>>)
  /\ UNCHANGED <<sh, hp>>

(* ====================================================================== *)
Step(t) ==
  \/ Begin(t)
  \/ N_head(t) \/ N_next(t) \/ N_cool(t) \/ N_wr(t) \/ N_uncool(t) \/ N_claim(t)
  \/ X_res(t) \/ X_cool(t) \/ X_rel(t)
  \/ L_first(t) \/ L_probe(t) \/ L_slot(t) \/ L_confirm(t) \/ L_pay(t)
  \/ F_addr(t) \/ F_ctrl(t) \/ F_cand(t) \/ F_hslot(t) \/ F_conf(t) \/ F_inc(t) \/ F_pay(t) \/ F_dec(t)
  \/ F_env(t) \/ F_space(t) \/ F_pay2(t)
  \/ I_start(t) \/ I_pay(t) \/ I_dec(t) \/ I_done(t) \/ D_pay(t) \/ D_dec(t) \/ DH_dec(t) \/ X_check(t)
  \/ W_swap(t) \/ W_inc(t) \/ W_head(t) \/ W_next(t) \/ W_res(t)
  \/ H_ctrl(t) \/ H_sw(t) \/ H_addr(t) \/ H_re(t) \/ H_into(t) \/ H_their(t) \/ H_mine(t) \/ H_envst(t)
  \/ H_cas(t) \/ H_spacest(t) \/ H_drop(t) \/ P_slot(t) \/ P_inc(t) \/ W_rel(t) \/ W_dec(t) \/ W_ret(t)
  \/ R_cur(t) \/ R_cmp(t) \/ R_cx(t) \/ G_pay(t) \/ R_dropold(t) \/ R_again(t) \/ R_dropnew(t)
  \/ R_swapcur(t) \/ R_refresh(t) \/ R_dec(t) \/ R_dropcur(t) \/ RI_start(t) \/ RI_pay(t) \/ R_ret(t)
  \/ K_rej(t) \/ K_ret(t)

InOp(t) == PC(t) \notin {"idle", "dead"}

Freeze(t) == /\ SoloOn /\ solo = 0 /\ InOp(t) /\ solo' = t /\ sc' = 0 /\ UNCHANGED <<sh, th, hp, ab, err, hist>>

\* what thread t is about to do, with the operands that identify the access (for tools/cover.py)
Entry(t) == LET r == th[t] IN
  <<t, r.pc, r.node, r.m, r.c, r.slot, IF r.ps = <<>> THEN 0 ELSE Head(r.ps), r.r.i, r.r.n, r.scan, r.kind, Len(r.wl), IF r.ip <= Len(Prog[t]) THEN Prog[t][r.ip].k ELSE "none">>
HistUpd(t) == CASE Hist = "off" -> hist [] Hist = "last" -> <<Entry(t)>> [] OTHER -> Append(hist, Entry(t))

SoloK == 120
\* the solo thread's own steps while it is inside the operation it was frozen in
ScNext(t) == IF solo = t /\ InOp(t) /\ sc <= SoloK THEN sc + 1 ELSE sc
Next ==
  \/ \E t \in Threads : (solo = 0 \/ solo = t) /\ err = "" /\ Step(t) /\ UNCHANGED solo /\ hist' = HistUpd(t) /\ sc' = ScNext(t)
  \/ \E t \in Threads : Freeze(t)

Spec == Init /\ [][Next]_vars

\* Every operation of every thread terminates if every thread keeps being scheduled (no deadlock, no livelock of the
\* design under weak fairness; programs are finite, so a failed exchange means somebody else's succeeded).  Checked by
\* TLC as a temporal property on the small configurations (MC_live_*); lock-freedom proper is SoloProgress.
StepT(t) == (solo = 0 \/ solo = t) /\ err = "" /\ Step(t) /\ UNCHANGED solo /\ hist' = HistUpd(t) /\ sc' = ScNext(t)
FairSpec == Spec /\ \A t \in Threads : WF_vars(StepT(t))

(* ====================================================================== *)
(* Invariants                                                              *)
(* ====================================================================== *)
\* refinement + no internal assertion fires (C01-C06, C10, C12, C13)
Refines == err = ""

\* every held guard / handle denotes a live value (the lesson of the prototype)
HeldLive ==
  \A t \in Threads :
     /\ \A i \in 1..Len(th[t].held) : IsLive(Obj(th[t].held[i].g.a))
     /\ \A i \in 1..Len(th[t].handles) : IsLive(Obj(th[t].handles[i].a))
StoredLive == \A c \in Conts : IsLive(Obj(sh.storage[c]))

\* a node is used by at most one thread at a time (C11)
\* (a thread in X_rel has given the node up: it only releases its own writer reservation)
Users(n) == {t \in Threads : (th[t].node = n /\ th[t].pc # "X_rel") \/ (th[t].hnode = n /\ th[t].pc \in {"F_cand", "F_hslot", "F_conf", "F_inc", "F_pay", "F_dec", "F_env", "F_space", "F_pay2"})}
NodeExclusive == \A n \in Nodes : Cardinality(Users(n)) <= 1
NodeUsedOwned == \A n \in Nodes : (\E t \in Threads : th[t].node = n /\ th[t].pc # "X_rel") => sh.inuse[n] \in {"used", "cool"}

\* quiescent ledger (C02): nobody inside an operation => counts + debts = owners, everything idle
Quiet == \A t \in Threads : th[t].pc \in {"idle", "dead"}
SlotCount(a) == Cardinality({<<n, i>> \in Nodes \X Slots : sh.fast[n][i] = a}) + Cardinality({n \in Nodes : sh.hslot[n] = a})
Ledger ==
  Quiet =>
    /\ \A n \in Nodes : sh.ctrl[n] = IDLE /\ sh.wr[n] = 0
    /\ \A o \in ab.known \ ab.dead : \E a \in Addrs : Obj(a) = o /\ ab.cnt[o] + SlotCount(a) = Abs!Owners(ab, o)
    /\ \A o \in ab.known \ ab.dead : Abs!Owners(ab, o) > 0
    /\ \A a \in Addrs : SlotCount(a) > 0 => IsLive(Obj(a))
    /\ \A a \in Addrs : SlotCount(a) <= Cardinality({g \in DOMAIN ab.greg : ab.greg[g] = Obj(a)})

\* envelopes are linear: each is referenced by exactly one space offer or one control word
EnvRefs(e) == Cardinality({n \in 1..sh.nnodes : sh.space[n] = e}) + Cardinality({n \in 1..sh.nnodes : sh.ctrl[n] = Repl(e)})
EnvelopeLinear == Quiet => \A e \in 1..sh.nnodes : EnvRefs(e) = 1

\* bookkeeping is bounded by peak concurrency (C11): see DESIGN 6/C11 for the formalisation
Alive == Cardinality({t \in Threads : th[t].node # 0 \/ th[t].pc \in {"N_head", "N_next", "N_cool", "N_wr", "N_uncool", "N_claim"}})
NodeBound == sh.nnodes <= 2 * Cardinality(Threads)

\* wait-freedom of reads as a safety property (C08)
LoadSteps == \A t \in Threads : (th[t].kind \in {"load", "loadfull"} /\ th[t].used /\ InOp(t)) => th[t].steps <= NF + 24

\* lock-freedom (C09): a frozen world cannot stop the solo thread
SoloProgress == (solo # 0 /\ InOp(solo) /\ err = "") => ENABLED Step(solo)
\* ... and it does not spin either: it completes the operation it is in within SoloK own steps (a loop that waits for
\* somebody else's progress keeps the step enabled, so SoloProgress alone would not notice it)
SoloBound == sc <= SoloK

TypeOK == /\ \A n \in Nodes : sh.wr[n] >= 0
          /\ sh.nnodes \in 0..MaxNodes

AllDone == \A t \in Threads : ~HasOp(t) /\ th[t].pc = "idle"
Termination == <>(AllDone \/ err # "")
=============================================================================

SPECIFICATION FairSpec
CONSTANTS
  Prog <- P_3
  Threads = {1,2,3}
  NAddr = 4
  MaxObj = 5
  Bug = ""
INVARIANTS Refines LockOK StoredLive HeldLive
PROPERTY Termination
CHECK_DEADLOCK FALSE

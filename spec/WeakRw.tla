---- MODULE WeakRw ----
(***************************************************************************)
(* Weak-memory model of the LOCK-BASED strategy (strategy/rw_lock.rs):     *)
(* the writer swaps the pointer WITHOUT the lock (lib.rs swap) and takes   *)
(* the write lock only afterwards, to wait for the readers; a reader loads *)
(* the pointer under the read lock.  The lock orders a reader after the    *)
(* writers that unlocked before it, not after a writer that has only       *)
(* swapped so far: the initialisation of the new value reaches the reader  *)
(* through the pointer itself (release swap / acquire load).               *)
(* Same view-based semantics as the other Weak* modules; the lock is an    *)
(* atomic location whose acquisitions are acquire and whose releases are   *)
(* release read-modify-writes.                                             *)
(***************************************************************************)
EXTENDS Naturals, FiniteSets, Sequences, TLC
CONSTANTS StrictSC, OrdStSwap, OrdRwLoad
R == "r"  W == "w"
Threads == {R, W}
ALocs == {"st", "lk", "rc1", "rc2"}
NLocs == {"d1", "d2", "er"}
Locs == ALocs \cup NLocs
ZeroV == [l \in Locs |-> 0]
Join(a, b) == [l \in Locs |-> IF a[l] >= b[l] THEN a[l] ELSE b[l]]
AtomOnly(v) == [l \in Locs |-> IF l \in ALocs THEN v[l] ELSE 0]
Rc(a) == IF a = 1 THEN "rc1" ELSE "rc2"
D(a) == IF a = 1 THEN "d1" ELSE "d2"
IsAcq(o) == o \in {"acq", "acqrel", "sc"}
IsRel(o) == o \in {"rel", "acqrel", "sc"}
VARIABLES mem, cur, acq, G, dclk, live, readers, pc, loc, err
vars == <<mem, cur, acq, G, dclk, live, readers, pc, loc, err>>

PreSC(t, o) == IF o = "sc" /\ ~StrictSC THEN Join(cur[t], G) ELSE cur[t]
LoadEff(t, x, i, o) ==
  LET c0 == PreSC(t, o)
      m == mem[x][i]
      c1 == [c0 EXCEPT ![x] = i]
      c2 == IF IsAcq(o) THEN Join(c1, m.view) ELSE c1
  IN [cur |-> c2, acq |-> Join(Join(acq[t], m.view), c2), G |-> IF o = "sc" THEN Join(G, AtomOnly(c2)) ELSE G, val |-> m.val]
Readable(t, x, o) ==
  LET c0 == PreSC(t, o)
      scs == {j \in 1..Len(mem[x]) : mem[x][j].sc}
      lastsc == IF scs = {} THEN 1 ELSE CHOOSE j \in scs : \A k \in scs : k <= j
      lo == IF o = "sc" /\ lastsc > c0[x] THEN lastsc ELSE c0[x]
  IN {i \in 1..Len(mem[x]) : i >= lo /\ i >= 1}
WriteEff(t, x, v, o, c0, rdview) ==
  LET i == Len(mem[x]) + 1
      c1 == [c0 EXCEPT ![x] = i]
      mv == IF IsRel(o) THEN Join(c1, rdview) ELSE Join([ZeroV EXCEPT ![x] = i], rdview)
  IN [mem |-> [mem EXCEPT ![x] = Append(@, [val |-> v, view |-> mv, sc |-> (o = "sc")])], cur |-> c1, G |-> IF o = "sc" THEN Join(G, AtomOnly(c1)) ELSE G]
RmwEff(t, x, v, o) ==
  LET i == Len(mem[x])
      le == LoadEff(t, x, i, o)
      we == WriteEff(t, x, v, o, le.cur, mem[x][i].view)
  IN [mem |-> we.mem, cur |-> we.cur, acq |-> Join(le.acq, we.cur), G |-> Join(le.G, we.G), val |-> le.val]
Last(x) == mem[x][Len(mem[x])]
Apply(t, e) == /\ mem' = e.mem /\ cur' = [cur EXCEPT ![t] = e.cur] /\ acq' = [acq EXCEPT ![t] = e.acq] /\ G' = e.G
ApplyL(t, e) == /\ cur' = [cur EXCEPT ![t] = e.cur] /\ acq' = [acq EXCEPT ![t] = e.acq] /\ G' = e.G /\ UNCHANGED mem
Goto(t, l) == pc' = [pc EXCEPT ![t] = l]

InitView == [l \in Locs |-> IF l \in ALocs \/ l = "d1" THEN 1 ELSE 0]
Init ==
  /\ mem = [x \in ALocs |-> << [val |-> (CASE x = "st" -> 1 [] x = "rc1" -> 1 [] OTHER -> 0), view |-> [ZeroV EXCEPT !["d1"] = 1], sc |-> TRUE] >>]
  /\ cur = [t \in Threads |-> InitView] /\ acq = cur /\ G = InitView
  /\ dclk = [a \in {1, 2} |-> IF a = 1 THEN 1 ELSE 0] /\ live = [a \in {1, 2} |-> a = 1]
  /\ readers = 0
  /\ pc = [t \in Threads |-> "start"] /\ loc = [t \in Threads |-> [p |-> 0, old |-> 0, ep |-> 0, pinc |-> 0]]
  /\ err = "ok"

IncStep(t, a, next) ==
  /\ Apply(t, RmwEff(t, Rc(a), Last(Rc(a)).val + 1, "rlx")) /\ Goto(t, next)
  /\ err' = IF ~live[a] THEN "uaf-inc" ELSE err
  /\ UNCHANGED <<dclk, live, loc, readers>>
DecStep(t, a, next) ==
  LET old == Last(Rc(a)).val
      e == RmwEff(t, Rc(a), IF old = 0 THEN 0 ELSE old - 1, "rel")
      cfin == Join(e.cur, e.acq)
  IN /\ Goto(t, next)
     /\ IF ~live[a] \/ old = 0 THEN /\ err' = "uaf-dec" /\ Apply(t, e) /\ UNCHANGED <<dclk, live>>
        ELSE IF old = 1 THEN
             /\ mem' = e.mem /\ G' = e.G /\ acq' = [acq EXCEPT ![t] = e.acq]
             /\ live' = [live EXCEPT ![a] = FALSE] /\ dclk' = [dclk EXCEPT ![a] = @ + 1]
             /\ cur' = [cur EXCEPT ![t] = [cfin EXCEPT ![D(a)] = dclk[a] + 1]]
             /\ err' = IF cfin[D(a)] < dclk[a] THEN "race-destroy-init"
                       ELSE IF loc[R].ep > cfin["er"] /\ loc[R].p = a /\ loc[R].pinc = dclk[a] /\ t # R THEN "race-destroy-read" ELSE err
        ELSE /\ Apply(t, e) /\ UNCHANGED <<dclk, live, err>>
     /\ UNCHANGED <<loc, readers>>

\* ---- reader: load (rw_lock.rs) then use, then drop its own reference
R1 == /\ pc[R] = "start" /\ pc[W] # "W3"          \* read(): not while a writer holds the lock
      /\ Apply(R, RmwEff(R, "lk", 0, "acq")) /\ readers' = readers + 1
      /\ Goto(R, "R2") /\ UNCHANGED <<dclk, live, loc, err>>
R2 == /\ pc[R] = "R2"
      /\ \E i \in Readable(R, "st", OrdRwLoad) : LET e == LoadEff(R, "st", i, OrdRwLoad) IN
           ApplyL(R, e) /\ loc' = [loc EXCEPT ![R].p = e.val]
      /\ Goto(R, "R3") /\ UNCHANGED <<dclk, live, readers, err>>
R3 == /\ pc[R] = "R3" /\ IncStep(R, loc[R].p, "R4")
R4 == /\ pc[R] = "R4" /\ Apply(R, RmwEff(R, "lk", 0, "rel")) /\ readers' = readers - 1   \* the read guard is dropped
      /\ Goto(R, "use") /\ UNCHANGED <<dclk, live, loc, err>>
Use == /\ pc[R] = "use"
       /\ err' = IF ~live[loc[R].p] THEN "uaf-deref" ELSE IF cur[R][D(loc[R].p)] < dclk[loc[R].p] THEN "race-read-init" ELSE err
       /\ loc' = [loc EXCEPT ![R].ep = @ + 1, ![R].pinc = dclk[loc[R].p]]
       /\ cur' = [cur EXCEPT ![R]["er"] = loc[R].ep + 1]
       /\ Goto(R, "rdec") /\ UNCHANGED <<mem, acq, G, dclk, live, readers>>
RDec == /\ pc[R] = "rdec" /\ DecStep(R, loc[R].p, "done")
\* ---- writer: store = swap (no lock), wait_for_readers (write lock, unlock), drop the old value
W0 == /\ pc[W] = "start"
      /\ live' = [live EXCEPT ![2] = TRUE] /\ dclk' = [dclk EXCEPT ![2] = @ + 1]
      /\ cur' = [cur EXCEPT ![W][D(2)] = dclk[2] + 1]
      /\ mem' = [mem EXCEPT !["rc2"] = Append(@, [val |-> 1, view |-> ZeroV, sc |-> FALSE])]
      /\ Goto(W, "W1") /\ UNCHANGED <<acq, G, readers, loc, err>>
W1 == /\ pc[W] = "W1" /\ LET e == RmwEff(W, "st", 2, OrdStSwap) IN Apply(W, e) /\ loc' = [loc EXCEPT ![W].old = e.val]
      /\ Goto(W, "W2") /\ UNCHANGED <<dclk, live, readers, err>>
W2 == /\ pc[W] = "W2" /\ readers = 0                \* write(): waits for the readers
      /\ Apply(W, RmwEff(W, "lk", 0, "acq")) /\ Goto(W, "W3") /\ UNCHANGED <<dclk, live, readers, loc, err>>
W3 == /\ pc[W] = "W3" /\ Apply(W, RmwEff(W, "lk", 0, "rel")) /\ Goto(W, "W4") /\ UNCHANGED <<dclk, live, readers, loc, err>>
W4 == /\ pc[W] = "W4" /\ DecStep(W, loc[W].old, "done")
Next == R1 \/ R2 \/ R3 \/ R4 \/ Use \/ RDec \/ W0 \/ W1 \/ W2 \/ W3 \/ W4
Spec == Init /\ [][Next]_vars
Safe == err = "ok"
SafeUaf == err \notin {"uaf-inc", "uaf-dec", "uaf-deref"}
SafeRace == err \notin {"race-read-init", "race-destroy-init", "race-destroy-read"}
====

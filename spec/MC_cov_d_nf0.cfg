SPECIFICATION Spec
CONSTANTS
  Prog <- P_cov_d
  Threads = {1, 2}
  Conts = {1}
  NF = 0
  GenMod = 4
  NAddr = 4
  MaxNodes = 2
  MaxObj = 5
  WrapMode = "fixed"
  MaxSpur = 1
  SoloOn = FALSE
  Bug = ""
  Hist = "all"
  UseFast = FALSE
INVARIANTS PrintDone Refines
CHECK_DEADLOCK FALSE

SPECIFICATION TSpec
CONSTANT MaxT = 7
INVARIANT Report
POSTCONDITION Accepted
CHECK_DEADLOCK FALSE

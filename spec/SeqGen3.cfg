SPECIFICATION Spec
CONSTANTS MaxLen = 3  NC = 1  NG = 2  NH = 2  WithCache = TRUE
INVARIANT PrintProgram
CHECK_DEADLOCK FALSE

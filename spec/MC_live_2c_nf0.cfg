SPECIFICATION FairSpec
CONSTANTS
  Prog <- P_2c
  Threads = {1, 2}
  Conts = {1, 2}
  NF = 0
  GenMod = 4
  NAddr = 4
  MaxNodes = 3
  MaxObj = 5
  WrapMode = "fixed"
  MaxSpur = 1
  SoloOn = FALSE
  Bug = ""
  Hist = "off"
  UseFast = TRUE
PROPERTY Termination
CHECK_DEADLOCK FALSE

SPECIFICATION Spec
CONSTANTS
  Prog <- P_wrap
  Threads = {1, 2}
  Conts = {1}
  NF = 0
  GenMod = 2
  NAddr = 3
  MaxNodes = 3
  MaxObj = 4
  WrapMode = "code"
  MaxSpur = 1
  SoloOn = FALSE
  Bug = ""
  Hist = "off"
  UseFast = TRUE
INVARIANTS Refines
CHECK_DEADLOCK FALSE

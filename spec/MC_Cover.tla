---- MODULE MC_Cover ----
(* Behaviours of ArcSwapImpl for replay on the real code: simulation mode, full history printed at the end. *)
EXTENDS MC_Impl, Json
PrintDone == AllDone => PrintT(<<"HIST", ToJson([h |-> hist, rets |-> ab.log])>>)
====

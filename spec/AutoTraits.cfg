SPECIFICATION Spec
INVARIANT Emit

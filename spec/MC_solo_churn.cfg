SPECIFICATION Spec
CONSTANTS
  Prog <- P_churn
  Threads = {1, 2}
  Conts = {1}
  NF = 1
  GenMod = 4
  NAddr = 3
  MaxNodes = 3
  MaxObj = 3
  WrapMode = "fixed"
  MaxSpur = 1
  SoloOn = TRUE
  Bug = ""
  Hist = "off"
  UseFast = TRUE
INVARIANTS Refines SoloProgress SoloBound
CHECK_DEADLOCK FALSE

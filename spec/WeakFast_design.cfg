SPECIFICATION Spec
CONSTANTS NSwaps = 3
 OrdFirst = "rlx"
 OrdConfirm = "sc"
 OrdSlotSwap = "sc"
 OrdStSwap = "sc"
 OrdPayOk = "rel"
 OrdPayFail = "rlx"
 OrdPayFailR4 = "acq"
INVARIANT Safe
CHECK_DEADLOCK FALSE

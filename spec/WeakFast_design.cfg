SPECIFICATION Spec
CONSTANTS StrictSC = TRUE
 NSwaps = 3
 OrdFirst = "rlx"
 OrdConfirm = "sc"
 OrdSlotSwap = "sc"
 OrdStSwap = "sc"
 OrdPayOk = "rel"
 OrdPayFail = "rlx"
 OrdPayOkW = "sc"
 OrdPayFailW = "sc"
 OrdPayFailR4 = "acq"
INVARIANT Safe
CHECK_DEADLOCK FALSE

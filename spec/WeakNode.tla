---- MODULE WeakNode ----
(***************************************************************************)
(* Weak-memory model of the HAND-OVER OF A DEBT NODE between threads       *)
(* (debt/list.rs start_cooldown / check_cooldown / Node::get, debt/fast.rs *)
(* get_debt): thread A has a debt in a fast slot of its node (the guard    *)
(* lives on, C10), gives the node up (thread exit / generation wrap); a    *)
(* third party C may finish the cool-down; thread B claims the node and    *)
(* looks for a free slot with a Relaxed probe.  If B does not see A's      *)
(* debt it overwrites it: the guard loses its protection.                  *)
(* Same view-based semantics as WeakFast / WeakHelp (messages, views,      *)
(* release sequences through read-modify-writes, StrictSC); the orderings  *)
(* are constants filled from the table extracted from the real code.       *)
(***************************************************************************)
EXTENDS Naturals, FiniteSets, Sequences, TLC
CONSTANTS StrictSC, OrdSlotSwap, OrdProbe, OrdCool, OrdCoolLoad, OrdWrLoad, OrdWrAdd, OrdWrSub,
          OrdUncoolOk, OrdUncoolFail, OrdClaimOk, OrdClaimFail
Threads == {"a", "b", "c"}
ALocs == {"sl", "iu", "wr"}
Locs == ALocs
ZeroV == [l \in Locs |-> 0]
Join(a, b) == [l \in Locs |-> IF a[l] >= b[l] THEN a[l] ELSE b[l]]
IsAcq(o) == o \in {"acq", "acqrel", "sc"}
IsRel(o) == o \in {"rel", "acqrel", "sc"}
USED == 1  COOL == 2  UNUSED == 0  NONE == 0  DEBT == 7  DEBT2 == 8
VARIABLES mem, cur, acq, G, pc, err
vars == <<mem, cur, acq, G, pc, err>>

PreSC(t, o) == IF o = "sc" /\ ~StrictSC THEN Join(cur[t], G) ELSE cur[t]
LoadEff(t, x, i, o) ==
  LET c0 == PreSC(t, o)
      m == mem[x][i]
      c1 == [c0 EXCEPT ![x] = i]
      c2 == IF IsAcq(o) THEN Join(c1, m.view) ELSE c1
  IN [cur |-> c2, acq |-> Join(Join(acq[t], m.view), c2), G |-> IF o = "sc" THEN Join(G, c2) ELSE G, val |-> m.val]
Readable(t, x, o) ==
  LET c0 == PreSC(t, o)
      scs == {j \in 1..Len(mem[x]) : mem[x][j].sc}
      lastsc == IF scs = {} THEN 1 ELSE CHOOSE j \in scs : \A k \in scs : k <= j
      lo == IF o = "sc" /\ lastsc > c0[x] THEN lastsc ELSE c0[x]
  IN {i \in 1..Len(mem[x]) : i >= lo /\ i >= 1}
WriteEff(t, x, v, o, c0, rdview) ==
  LET i == Len(mem[x]) + 1
      c1 == [c0 EXCEPT ![x] = i]
      mv == IF IsRel(o) THEN Join(c1, rdview) ELSE Join([ZeroV EXCEPT ![x] = i], rdview)
  IN [mem |-> [mem EXCEPT ![x] = Append(@, [val |-> v, view |-> mv, sc |-> (o = "sc")])], cur |-> c1, G |-> IF o = "sc" THEN Join(G, c1) ELSE G]
RmwEff(t, x, v, o) ==
  LET i == Len(mem[x])
      le == LoadEff(t, x, i, o)
      we == WriteEff(t, x, v, o, le.cur, mem[x][i].view)
  IN [mem |-> we.mem, cur |-> we.cur, acq |-> Join(le.acq, we.cur), G |-> Join(le.G, we.G), val |-> le.val]
Last(x) == mem[x][Len(mem[x])]
Apply(t, e) == /\ mem' = e.mem /\ cur' = [cur EXCEPT ![t] = e.cur] /\ acq' = [acq EXCEPT ![t] = e.acq] /\ G' = e.G
ApplyL(t, e) == /\ cur' = [cur EXCEPT ![t] = e.cur] /\ acq' = [acq EXCEPT ![t] = e.acq] /\ G' = e.G /\ UNCHANGED mem
Goto(t, l) == pc' = [pc EXCEPT ![t] = l]
\* compare-exchange: succeeds on the last message only; a failure is a load with the failure ordering (may be stale)
Cas(t, x, exp, new, ook, ofail, lok, lfail) ==
  \/ /\ Last(x).val = exp /\ Apply(t, RmwEff(t, x, new, ook)) /\ Goto(t, lok)
  \/ \E i \in Readable(t, x, ofail) : mem[x][i].val # exp /\ ApplyL(t, LoadEff(t, x, i, ofail)) /\ Goto(t, lfail)

InitView == [l \in Locs |-> 1]
Init ==
  /\ mem = [x \in ALocs |-> << [val |-> (IF x = "iu" THEN USED ELSE 0), view |-> ZeroV, sc |-> TRUE] >>]
  /\ cur = [t \in Threads |-> InitView] /\ acq = cur /\ G = InitView
  /\ pc = [t \in Threads |-> "start"] /\ err = "ok"

\* ---- A: owns the node; takes a debt (fast.rs:58 swap), then gives the node up (list.rs start_cooldown)
A1 == /\ pc["a"] = "start" /\ Apply("a", RmwEff("a", "sl", DEBT, OrdSlotSwap)) /\ Goto("a", "A2") /\ UNCHANGED err
A2 == /\ pc["a"] = "A2" /\ Apply("a", RmwEff("a", "wr", Last("wr").val + 1, OrdWrAdd)) /\ Goto("a", "A3") /\ UNCHANGED err
A3 == /\ pc["a"] = "A3" /\ Apply("a", RmwEff("a", "iu", COOL, OrdCool)) /\ Goto("a", "A4") /\ UNCHANGED err
A4 == /\ pc["a"] = "A4" /\ Apply("a", RmwEff("a", "wr", Last("wr").val - 1, OrdWrSub)) /\ Goto("a", "done") /\ UNCHANGED err
\* ---- check_cooldown by t (B or the third party C)
CC1(t) == /\ pc[t] = "start"
          /\ \E i \in Readable(t, "iu", OrdCoolLoad) :
               /\ ApplyL(t, LoadEff(t, "iu", i, OrdCoolLoad))
               /\ Goto(t, IF mem["iu"][i].val = COOL THEN "CC2" ELSE IF t = "b" THEN "B4" ELSE "done")
          /\ UNCHANGED err
CC2(t) == /\ pc[t] = "CC2"
          /\ \E i \in Readable(t, "wr", OrdWrLoad) :
               /\ ApplyL(t, LoadEff(t, "wr", i, OrdWrLoad))
               /\ Goto(t, IF mem["wr"][i].val = 0 THEN "CC3" ELSE IF t = "b" THEN "B4" ELSE "done")
          /\ UNCHANGED err
CC3(t) == /\ pc[t] = "CC3" /\ Cas(t, "iu", COOL, UNUSED, OrdUncoolOk, OrdUncoolFail, IF t = "b" THEN "B4" ELSE "done", IF t = "b" THEN "B4" ELSE "done")
          /\ UNCHANGED err
\* ---- B: claims the node (list.rs Node::get) and looks for a free slot (fast.rs:54 Relaxed probe, :58 swap)
B4 == /\ pc["b"] = "B4" /\ Cas("b", "iu", UNUSED, USED, OrdClaimOk, OrdClaimFail, "B5", "done") /\ UNCHANGED err
B5 == /\ pc["b"] = "B5"
      /\ \E i \in Readable("b", "sl", OrdProbe) :
           /\ ApplyL("b", LoadEff("b", "sl", i, OrdProbe))
           /\ Goto("b", IF mem["sl"][i].val = NONE THEN "B6" ELSE "done")     \* occupied: the next slot is tried
      /\ UNCHANGED err
B6 == /\ pc["b"] = "B6"
      /\ LET e == RmwEff("b", "sl", DEBT2, OrdSlotSwap) IN
           /\ Apply("b", e)
           /\ err' = IF e.val # NONE THEN "debt-overwritten" ELSE err
      /\ Goto("b", "done")
Next == A1 \/ A2 \/ A3 \/ A4 \/ (\E t \in {"b", "c"} : CC1(t) \/ CC2(t) \/ CC3(t)) \/ B4 \/ B5 \/ B6
Spec == Init /\ [][Next]_vars
Safe == err = "ok"
\* checked separately, so that a use after free found first does not hide a race (and vice versa)
SafeUaf == err \notin {"uaf-inc", "uaf-dec", "uaf-deref", "debt-overwritten"}
SafeRace == err \notin {"race-read-init", "race-destroy-init", "race-destroy-read"}
====

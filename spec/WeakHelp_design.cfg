SPECIFICATION Spec
CONSTANTS StrictSC = TRUE
 NSwaps = 2
 OrdCand = "sc"
 OrdCtrl = "sc"
 OrdHslot = "sc"
 OrdEnv = "sc"
 OrdStSwap = "sc"
 OrdPayOk = "rel"
 OrdPayFail = "rlx"
 OrdPayOkW = "sc"
 OrdPayFailW = "sc"
 OrdHelpLoad = "sc"
INVARIANT Safe
CHECK_DEADLOCK FALSE

SPECIFICATION Spec
CONSTANTS NSwaps = 2
 OrdCand = "acq"
 OrdCtrl = "sc"
 OrdHslot = "sc"
 OrdEnv = "sc"
 OrdStSwap = "sc"
 OrdPayOk = "rel"
 OrdPayFail = "rlx"
 OrdHelpLoad = "sc"
INVARIANT Safe
CHECK_DEADLOCK FALSE

----------------------------- MODULE RefCntLaws -----------------------------
(***************************************************************************)
(* C15: the laws of the RefCnt trait, for pointer kinds that own a STRONG  *)
(* reference (Arc, Rc, Option of either) or a WEAK one (sync::Weak,        *)
(* rc::Weak).  One allocation with a strong and a weak count; handles of   *)
(* the kind under test ("p" = points to the allocation, "e" = the empty    *)
(* case: None / dangling Weak::new()); raw pointers obtained from them     *)
(* ("p" / "n" = null).  TLC enumerates every operation sequence up to      *)
(* MaxLen from every initial count state and prints it with the counts the *)
(* laws predict after every step; the harness executes it on the real      *)
(* implementations for several pointee layouts and compares.               *)
(*                                                                         *)
(* Laws encoded in the actions:                                            *)
(*   into_ptr / from_ptr / as_ptr : identity and counts unchanged          *)
(*   as_ptr(h) = what into_ptr(h) would give                               *)
(*   inc = +1 of the kind's own count, dec = -1                            *)
(*   empty <-> null, never counted                                         *)
(*   a weak kind does not keep the target alive (counts read 0 when dead)  *)
(***************************************************************************)
EXTENDS Integers, Sequences, TLC, Json

CONSTANTS Kind,      \* "strong" | "weak"
          MaxLen,
          Witness,   \* 1: the test keeps one extra strong handle (target stays alive), 0: it does not
          ExtraWeak, \* outstanding weak references held by the test
          InitH      \* initial handles of the kind under test, e.g. <<"p">>, <<"e">>, <<"p", "p">>

VARIABLES strong, weak, hs, rs, hist
vars == <<strong, weak, hs, rs, hist>>

Own(h) == IF h = "p" THEN 1 ELSE 0
RECURSIVE Sum(_)
Sum(s) == IF s = <<>> THEN 0 ELSE Own(Head(s)) + Sum(Tail(s))

Init == /\ hs = InitH /\ rs = <<>>
        /\ strong = Witness + (IF Kind = "strong" THEN Sum(InitH) ELSE 0)
        /\ weak = ExtraWeak + (IF Kind = "weak" THEN Sum(InitH) ELSE 0)
        /\ hist = <<>>

\* what the standard library reports: with no strong reference left both counts read 0
Obs(s, w) == IF s > 0 THEN <<s, w>> ELSE <<0, 0>>
Bump(s, w, d) == IF Kind = "strong" THEN <<s + d, w>> ELSE <<s, w + d>>
Log(o, s, w) == hist' = Append(hist, o @@ [strong |-> Obs(s, w)[1], weak |-> Obs(s, w)[2]])

LiveH == {i \in 1..Len(hs) : hs[i] # "x"}
LiveR == {i \in 1..Len(rs) : rs[i] # "x"}
\* a strong kind can only exist while the target is alive; a dangling raw pointer of a dead target is never used
Usable(i) == hs[i] = "e" \/ Kind = "weak" \/ strong > 0

IntoPtr(i) == /\ i \in LiveH
              /\ rs' = Append(rs, IF hs[i] = "p" THEN "p" ELSE "n") /\ hs' = [hs EXCEPT ![i] = "x"]
              /\ UNCHANGED <<strong, weak>>
              /\ Log([op |-> "into_ptr", h |-> i, null |-> hs[i] = "e"], strong, weak)
FromPtr(j) == /\ j \in LiveR
              /\ hs' = Append(hs, IF rs[j] = "p" THEN "p" ELSE "e") /\ rs' = [rs EXCEPT ![j] = "x"]
              /\ UNCHANGED <<strong, weak>>
              /\ Log([op |-> "from_ptr", r |-> j], strong, weak)
AsPtr(i)   == /\ i \in LiveH /\ UNCHANGED <<strong, weak, hs, rs>>
              /\ Log([op |-> "as_ptr", h |-> i, null |-> hs[i] = "e"], strong, weak)
Inc(i)     == /\ i \in LiveH
              /\ LET b == IF hs[i] = "p" THEN Bump(strong, weak, 1) ELSE <<strong, weak>> IN
                 /\ strong' = b[1] /\ weak' = b[2]
                 /\ rs' = Append(rs, IF hs[i] = "p" THEN "p" ELSE "n") /\ UNCHANGED hs
                 /\ Log([op |-> "inc", h |-> i, null |-> hs[i] = "e"], b[1], b[2])
Dec(j)     == /\ j \in LiveR
              /\ LET b == IF rs[j] = "p" THEN Bump(strong, weak, -1) ELSE <<strong, weak>> IN
                 /\ strong' = b[1] /\ weak' = b[2]
                 /\ rs' = [rs EXCEPT ![j] = "x"] /\ UNCHANGED hs
                 /\ Log([op |-> "dec", r |-> j], b[1], b[2])
Clone(i)   == /\ i \in LiveH
              /\ LET b == IF hs[i] = "p" THEN Bump(strong, weak, 1) ELSE <<strong, weak>> IN
                 /\ strong' = b[1] /\ weak' = b[2] /\ hs' = Append(hs, hs[i]) /\ UNCHANGED rs
                 /\ Log([op |-> "clone", h |-> i], b[1], b[2])
Drop(i)    == /\ i \in LiveH
              /\ LET b == IF hs[i] = "p" THEN Bump(strong, weak, -1) ELSE <<strong, weak>> IN
                 /\ strong' = b[1] /\ weak' = b[2] /\ hs' = [hs EXCEPT ![i] = "x"] /\ UNCHANGED rs
                 /\ Log([op |-> "drop", h |-> i], b[1], b[2])
\* the test gives up its own strong handle (only meaningful for the weak kind: the target dies)
DropWitness == /\ Witness = 1 /\ Kind = "weak" /\ strong = 1 /\ ~\E k \in 1..Len(hist) : hist[k].op = "drop_witness"
               /\ strong' = 0 /\ UNCHANGED <<weak, hs, rs>>
               /\ Log([op |-> "drop_witness"], 0, weak)
\* a weak handle is upgraded (and the result dropped again): succeeds iff the target is alive
Upgrade(i) == /\ Kind = "weak" /\ i \in LiveH /\ UNCHANGED <<strong, weak, hs, rs>>
              /\ Log([op |-> "upgrade", h |-> i, ok |-> (hs[i] = "p" /\ strong > 0)], strong, weak)

Next == /\ Len(hist) < MaxLen
        /\ \/ \E i \in 1..Len(hs) : IntoPtr(i) \/ AsPtr(i) \/ Inc(i) \/ Clone(i) \/ Drop(i) \/ Upgrade(i)
           \/ \E j \in 1..Len(rs) : FromPtr(j) \/ Dec(j)
           \/ DropWitness
Spec == Init /\ [][Next]_vars

\* counts never go negative; a strong kind alive implies strong > 0
Sane == strong >= 0 /\ weak >= 0 /\ (Kind = "strong" /\ (\E i \in LiveH : hs[i] = "p") => strong > 0)

PrintProgram == Len(hist) = MaxLen =>
   PrintT(<<"LAW", ToJson([kind |-> Kind, witness |-> Witness, extra_weak |-> ExtraWeak, init |-> InitH, ops |-> hist])>>)
=============================================================================

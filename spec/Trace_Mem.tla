--------------------------- MODULE Trace_Mem ---------------------------
(***************************************************************************)
(* Happens-before / data-race monitor over recorded executions of the real *)
(* code (needs the trace with all atomic events).  Same structure as       *)
(* Trace_Abs: first failing clause per execution is recorded.  It also     *)
(* collects the ordering table site |-> ordering the code requested.       *)
(***************************************************************************)
EXTENDS Mem, Json, IOUtils

Rec == ndJsonDeserialize(IOEnv.TRACE)
N   == Len(Rec)

VARIABLES l, st, skip, viols, nexec, table
tvars == <<l, st, skip, viols, nexec, table>>

TInit == /\ l = 1 /\ st = InitMem /\ skip = FALSE /\ viols = <<>> /\ nexec = 0 /\ table = {}

Step ==
  /\ l <= N
  /\ l' = l + 1
  /\ LET e == Rec[l] IN
     IF e.e = "begin" THEN
        /\ st' = InitMem /\ skip' = FALSE /\ nexec' = nexec + 1 /\ UNCHANGED viols
        /\ table' = table \cup st.ords
     ELSE IF skip THEN UNCHANGED <<st, skip, viols, nexec, table>>
     ELSE LET v == MVerdict(st, e) IN
        IF v = OK THEN /\ st' = MEffect(st, e) /\ UNCHANGED <<skip, viols, nexec, table>>
        ELSE /\ viols' = Append(viols, [x |-> nexec, line |-> l, prop |-> v[1], why |-> v[2]])
             /\ skip' = TRUE /\ UNCHANGED <<st, nexec, table>>

TSpec == TInit /\ [][Step]_tvars

Report ==
  l = N + 1 =>
     /\ PrintT(<<"TRACE_MEM_DONE", N, nexec, Len(viols)>>)
     /\ \A i \in 1..Len(viols) : PrintT(<<"TRACE_MEM_VIOLATION", viols[i].x, viols[i].line, viols[i].prop, viols[i].why>>)
     /\ \A o \in (table \cup st.ords) : PrintT(<<"TRACE_MEM_ORD", o[1], o[2], o[3], o[4], o[5]>>)

Accepted == TLCGet("stats").diameter = N + 1
=============================================================================

SPECIFICATION Spec
INVARIANT Emit

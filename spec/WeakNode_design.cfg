SPECIFICATION Spec
CONSTANTS StrictSC = TRUE
 OrdSlotSwap = "sc"
 OrdProbe = "rlx"
 OrdCool = "rel"
 OrdCoolLoad = "acq"
 OrdWrLoad = "rlx"
 OrdWrAdd = "acq"
 OrdWrSub = "rel"
 OrdUncoolOk = "rlx"
 OrdUncoolFail = "rlx"
 OrdClaimOk = "sc"
 OrdClaimFail = "rlx"
INVARIANT Safe
CHECK_DEADLOCK FALSE

SPECIFICATION TSpec
CONSTANT LoadStepBound = 108
CONSTANT SoloStepBound = 600
INVARIANT Report
POSTCONDITION Accepted
CHECK_DEADLOCK FALSE

SPECIFICATION TSpec
CONSTANT LoadStepBound = 108
INVARIANT Report
POSTCONDITION Accepted
CHECK_DEADLOCK FALSE

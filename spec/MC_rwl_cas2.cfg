SPECIFICATION FairSpec
CONSTANTS
  Prog <- P_cas2
  Threads = {1,2}
  NAddr = 4
  MaxObj = 5
  Bug = ""
INVARIANTS Refines LockOK StoredLive HeldLive
PROPERTY Termination
CHECK_DEADLOCK FALSE

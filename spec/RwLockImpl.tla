--------------------------- MODULE RwLockImpl ---------------------------
(***************************************************************************)
(* The lock-based reference strategy (src/strategy/rw_lock.rs, impl of     *)
(* the strategy traits for std::sync::RwLock<()>) together with the        *)
(* strategy-independent part of src/lib.rs, as an implementation-shaped    *)
(* specification: one action per atomic access / lock operation.  Like     *)
(* ArcSwapImpl it carries the state of ArcSwapAbs as a ghost driven by the *)
(* events the harness logs, so TLC checks that this strategy refines the   *)
(* same observable specification (C14: all strategies implement one        *)
(* specification - here also under concurrency).                           *)
(*                                                                         *)
(*   load:   read-lock; ptr = storage.load; T::inc; unlock                 *)
(*   swap:   storage.swap (NO lock); wait_for_readers = write-lock+unlock  *)
(*   store:  drop(swap)                                                    *)
(*   compare_and_swap: write-lock; compare_exchange; (on failure: inc old, *)
(*           drop new); unlock                                             *)
(* The guards of this strategy own a reference (Protected = T).            *)
(***************************************************************************)
EXTENDS Integers, Sequences, FiniteSets, TLC

CONSTANTS Threads, Prog, NAddr, MaxObj, Bug

Abs == INSTANCE ArcSwapAbs WITH LoadStepBound <- 100
Addrs == 1..NAddr

VARIABLES storage,  \* the pointer (an address)
          rw,       \* the lock: [r |-> number of readers, w |-> 0 or the writing thread]
          th, hp, ab, err
vars == <<storage, rw, th, hp, ab, err>>

InitTh(t) == [pc |-> "idle", ip |-> 1, ptr |-> 0, new |-> 0, cur |-> 0, old |-> 0, kind |-> "", held |-> <<>>, handles |-> <<>>, steps |-> 0]
Init ==
  /\ storage = 1 /\ rw = [r |-> 0, w |-> 0]
  /\ th = [t \in Threads |-> InitTh(t)]
  /\ hp = [objAt |-> [a \in Addrs |-> IF a = 1 THEN 1 ELSE 0], free |-> Addrs \ {1}, next |-> 2]
  /\ ab = [log |-> <<>>] @@ [Abs!InitState EXCEPT !.cell = (1 :> 1), !.known = {1}, !.cnt = (1 :> 1), !.parent = (1 :> -1), !.ever = (1 :> {1})]
  /\ err = ""

L(t) == th[t]
PC(t) == th[t].pc
HasOp(t) == th[t].ip <= Len(Prog[t])
Cur(t) == Prog[t][th[t].ip]
Set(t, r) == th' = [th EXCEPT ![t] = r]
Step1(r) == [r EXCEPT !.steps = @ + 1]
Done(r) == [r EXCEPT !.pc = "idle", !.ip = @ + 1]

RECURSIVE Fold(_, _, _)
Fold(s, e, evs) ==
  IF evs = <<>> \/ e # "" THEN <<s, e>>
  ELSE LET v == Abs!Verdict(s, Head(evs)) IN
       IF v # Abs!OK THEN <<s, v[1] \o ": " \o v[2]>>
       ELSE Fold(Abs!Effect(s, Head(evs)), e, Tail(evs))
Emit(evs) == LET r == Fold(ab, err, evs) IN ab' = r[1] /\ err' = r[2]
NoEmit == UNCHANGED <<ab, err>>
Obj(a) == hp.objAt[a]
IsLive(o) == o \in ab.known /\ o \notin ab.dead
IncEv(t, a) == [e |-> "inc", t |-> t, o |-> Obj(a), n |-> (IF Obj(a) \in DOMAIN ab.cnt THEN ab.cnt[Obj(a)] ELSE 0) + 1, dead |-> ~IsLive(Obj(a))]
DecEvs(t, a) ==
  LET o == Obj(a)
      c == IF o \in DOMAIN ab.cnt THEN ab.cnt[o] ELSE 0
      d == [e |-> "dec", t |-> t, o |-> o, n |-> c - 1, dead |-> ~IsLive(o)]
  IN IF IsLive(o) /\ c = 1 THEN <<d, [e |-> "destroy", t |-> t, o |-> o]>> ELSE <<d>>
HpAfterDec(a) == IF IsLive(Obj(a)) /\ ab.cnt[Obj(a)] = 1 THEN [hp EXCEPT !.free = @ \cup {a}] ELSE hp
GReg(t, k) == t * 10 + k
FreeG(t) == GReg(t, CHOOSE k \in 1..9 : GReg(t, k) \notin DOMAIN ab.greg)
FreeH(t) == GReg(t, CHOOSE k \in 1..9 : GReg(t, k) \notin DOMAIN ab.hreg)
InvEv(t, op, a, r) == [e |-> "inv", t |-> t, op |-> op, c |-> 1, a |-> a, b |-> -1, r |-> r]
RetEv(t, op, v, r, n) == [e |-> "ret", t |-> t, op |-> op, c |-> 1, v |-> v, r |-> r, n |-> n, own |-> 1]

Alloc(a, ob) == hp' = [hp EXCEPT !.free = @ \ {a}, !.objAt[a] = ob, !.next = @ + 1]
NewEvs(t, a, ob) == <<[e |-> "alloc", t |-> t, o |-> ob, a |-> a, p |-> -1], [e |-> "arg", t |-> t, v |-> ob]>>

Begin(t) ==
  /\ PC(t) = "idle" /\ HasOp(t)
  /\ LET o == Cur(t) IN
     CASE o.k \in {"load", "loadfull"} ->
            /\ Set(t, [L(t) EXCEPT !.pc = "RL_lock", !.kind = o.k, !.steps = 0])
            /\ Emit(<<InvEv(t, IF o.k = "load" THEN "load" ELSE "load_full", -1, IF o.k = "load" THEN FreeG(t) ELSE FreeH(t))>>)
            /\ UNCHANGED <<storage, rw, hp>>
       [] o.k \in {"store", "swap"} ->
            /\ hp.free # {} /\ hp.next <= MaxObj
            /\ LET a == CHOOSE x \in hp.free : \A y \in hp.free : x <= y IN
               /\ Alloc(a, hp.next)
               /\ Set(t, [L(t) EXCEPT !.pc = "W_swap", !.kind = o.k, !.new = a, !.steps = 0])
               /\ Emit(<<InvEv(t, o.k, -1, IF o.k = "swap" THEN FreeH(t) ELSE 0)>> \o NewEvs(t, a, hp.next))
            /\ UNCHANGED <<storage, rw>>
       [] o.k = "cas" ->        \* compare_and_swap(&oldest handle, fresh value)
            IF L(t).handles = <<>> THEN Set(t, [L(t) EXCEPT !.ip = @ + 1]) /\ NoEmit /\ UNCHANGED <<storage, rw, hp>>
            ELSE /\ hp.free # {} /\ hp.next <= MaxObj
                 /\ LET a == CHOOSE x \in hp.free : \A y \in hp.free : x <= y
                        cu == Head(L(t).handles).a IN
                    /\ Alloc(a, hp.next)
                    /\ Set(t, [L(t) EXCEPT !.pc = "C_lock", !.kind = "cas", !.new = a, !.cur = cu, !.steps = 0])
                    /\ Emit(<<InvEv(t, "cas", Obj(cu), FreeG(t))>> \o NewEvs(t, a, hp.next))
                 /\ UNCHANGED <<storage, rw>>
       [] o.k = "dropg" ->
            IF L(t).held = <<>> THEN Set(t, [L(t) EXCEPT !.ip = @ + 1]) /\ NoEmit /\ UNCHANGED <<storage, rw, hp>>
            ELSE LET g == Head(L(t).held) IN
                 /\ Set(t, Done([L(t) EXCEPT !.held = Tail(@)]))
                 /\ Emit(<<InvEv(t, "drop_g", Obj(g.a), g.reg)>> \o DecEvs(t, g.a) \o <<[RetEv(t, "drop_g", Obj(g.a), g.reg, 1) EXCEPT !.c = -1]>>)
                 /\ hp' = HpAfterDec(g.a) /\ UNCHANGED <<storage, rw>>
       [] o.k = "droph" ->
            IF L(t).handles = <<>> THEN Set(t, [L(t) EXCEPT !.ip = @ + 1]) /\ NoEmit /\ UNCHANGED <<storage, rw, hp>>
            ELSE LET h == Head(L(t).handles) IN
                 /\ Set(t, Done([L(t) EXCEPT !.handles = Tail(@)]))
                 /\ Emit(<<InvEv(t, "drop_h", Obj(h.a), h.reg)>> \o DecEvs(t, h.a) \o <<[RetEv(t, "drop_h", Obj(h.a), h.reg, 1) EXCEPT !.c = -1]>>)
                 /\ hp' = HpAfterDec(h.a) /\ UNCHANGED <<storage, rw>>

\* ---- load (rw_lock.rs:26-33)
RL_lock(t) ==   \* self.read(): blocks while a writer holds the lock
  /\ PC(t) = "RL_lock" /\ rw.w = 0
  /\ rw' = [rw EXCEPT !.r = @ + 1]
  /\ Set(t, Step1([L(t) EXCEPT !.pc = "RL_load"])) /\ NoEmit /\ UNCHANGED <<storage, hp>>
RL_load(t) ==   \* storage.load(Acquire)
  /\ PC(t) = "RL_load"
  /\ Set(t, Step1([L(t) EXCEPT !.ptr = storage, !.pc = "RL_inc"])) /\ NoEmit /\ UNCHANGED <<storage, rw, hp>>
RL_inc(t) ==    \* T::inc(&ptr); the read guard is released at the end of the function
  /\ PC(t) = "RL_inc"
  /\ rw' = [rw EXCEPT !.r = @ - 1]
  /\ LET p == L(t).ptr
         isg == L(t).kind = "load"
         reg == IF isg THEN FreeG(t) ELSE FreeH(t) IN
     /\ Emit(<<IncEv(t, p), RetEv(t, IF isg THEN "load" ELSE "load_full", Obj(p), reg, L(t).steps + 1)>>)
     /\ Set(t, Done(IF isg THEN [L(t) EXCEPT !.held = Append(@, [a |-> p, reg |-> reg])]
                    ELSE [L(t) EXCEPT !.handles = Append(@, [a |-> p, reg |-> reg])]))
  /\ UNCHANGED <<storage, hp>>

\* ---- swap / store (lib.rs:472-482, rw_lock.rs:35-38)
W_swap(t) ==    \* self.ptr.swap(new, SeqCst): without the lock
  /\ PC(t) = "W_swap"
  /\ storage' = L(t).new
  /\ Set(t, Step1([L(t) EXCEPT !.old = storage, !.pc = "W_wait"]))
  /\ Emit(<<[e |-> "w", t |-> t, c |-> 1, old |-> Obj(storage), new |-> Obj(L(t).new)]>>)
  /\ UNCHANGED <<rw, hp>>
W_wait(t) ==    \* drop(self.write()): passes when there is neither a reader nor a writer
  /\ PC(t) = "W_wait" /\ rw.r = 0 /\ rw.w = 0
  /\ IF L(t).kind = "swap"
     THEN /\ Set(t, Done([L(t) EXCEPT !.handles = Append(@, [a |-> L(t).old, reg |-> FreeH(t)])]))
          /\ Emit(<<RetEv(t, "swap", Obj(L(t).old), FreeH(t), L(t).steps + 1)>>) /\ UNCHANGED hp
     ELSE /\ Set(t, Done(L(t)))
          /\ Emit(DecEvs(t, L(t).old) \o <<RetEv(t, "store", 0, 0, L(t).steps + 1)>>)
          /\ hp' = HpAfterDec(L(t).old)
  /\ UNCHANGED <<storage, rw>>

\* ---- compare_and_swap (rw_lock.rs:42-66)
C_lock(t) ==    \* self.write()
  /\ PC(t) = "C_lock" /\ rw.r = 0 /\ rw.w = 0
  /\ rw' = [rw EXCEPT !.w = t]
  /\ Set(t, Step1([L(t) EXCEPT !.pc = IF Bug = "cas_not_atomic" THEN "C_peek" ELSE "C_cas"])) /\ NoEmit /\ UNCHANGED <<storage, hp>>
C_cas(t) ==     \* storage.compare_exchange(cur, new, AcqRel, Relaxed)
  /\ PC(t) = "C_cas"
  /\ IF storage = L(t).cur
     THEN /\ storage' = L(t).new
          /\ Emit(<<[e |-> "w", t |-> t, c |-> 1, old |-> Obj(storage), new |-> Obj(L(t).new)]>>)
          /\ Set(t, Step1([L(t) EXCEPT !.old = storage, !.pc = "C_ok"]))
     ELSE /\ UNCHANGED storage /\ NoEmit
          /\ Set(t, Step1([L(t) EXCEPT !.old = storage, !.pc = "C_inc"]))
  /\ UNCHANGED <<rw, hp>>
\* (seeded model bug "cas_not_atomic" = seeded change g04: load + compare + plain store instead of one exchange)
C_peek(t) ==
  /\ PC(t) = "C_peek"
  /\ Set(t, Step1([L(t) EXCEPT !.old = storage, !.pc = IF storage = L(t).cur THEN "C_store" ELSE "C_inc"]))
  /\ NoEmit /\ UNCHANGED <<storage, rw, hp>>
C_store(t) ==
  /\ PC(t) = "C_store"
  /\ storage' = L(t).new
  /\ Emit(<<[e |-> "w", t |-> t, c |-> 1, old |-> Obj(storage), new |-> Obj(L(t).new)]>>)
  /\ Set(t, Step1([L(t) EXCEPT !.pc = "C_ok"])) /\ UNCHANGED <<rw, hp>>
C_inc(t) ==     \* rejected: T::inc(&old); drop(new); unlock
  /\ PC(t) = "C_inc"
  /\ rw' = [rw EXCEPT !.w = 0]
  /\ Emit(<<IncEv(t, L(t).old)>> \o DecEvs(t, L(t).new) \o <<RetEv(t, "cas", Obj(L(t).old), FreeG(t), L(t).steps + 1)>>)
  /\ hp' = HpAfterDec(L(t).new)
  /\ Set(t, Done([L(t) EXCEPT !.held = Append(@, [a |-> L(t).old, reg |-> FreeG(t)])]))
  /\ UNCHANGED storage
C_ok(t) ==      \* replaced: the storage's reference of old is ours now; unlock
  /\ PC(t) = "C_ok"
  /\ rw' = [rw EXCEPT !.w = 0]
  /\ Emit(<<RetEv(t, "cas", Obj(L(t).old), FreeG(t), L(t).steps + 1)>>)
  /\ Set(t, Done([L(t) EXCEPT !.held = Append(@, [a |-> L(t).old, reg |-> FreeG(t)])]))
  /\ UNCHANGED <<storage, hp>>

Step(t) == Begin(t) \/ RL_lock(t) \/ RL_load(t) \/ RL_inc(t) \/ W_swap(t) \/ W_wait(t)
           \/ C_lock(t) \/ C_cas(t) \/ C_peek(t) \/ C_store(t) \/ C_inc(t) \/ C_ok(t)
Next == \E t \in Threads : err = "" /\ Step(t)
Spec == Init /\ [][Next]_vars
FairSpec == Spec /\ \A t \in Threads : WF_vars(err = "" /\ Step(t))

Refines == err = ""
LockOK == /\ rw.r >= 0 /\ (rw.w # 0 => rw.r = 0)
          /\ rw.r = Cardinality({t \in Threads : PC(t) \in {"RL_load", "RL_inc"}})
          /\ \A t \in Threads : PC(t) \in {"C_cas", "C_peek", "C_store", "C_inc", "C_ok"} <=> rw.w = t
StoredLive == IsLive(Obj(storage))
HeldLive == \A t \in Threads : (\A i \in 1..Len(L(t).held) : IsLive(Obj(L(t).held[i].a)))
                               /\ (\A i \in 1..Len(L(t).handles) : IsLive(Obj(L(t).handles[i].a)))
AllDone == \A t \in Threads : ~HasOp(t) /\ PC(t) = "idle"
Termination == <>(AllDone \/ err # "")
=============================================================================

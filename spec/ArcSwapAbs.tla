--------------------------- MODULE ArcSwapAbs ---------------------------
(***************************************************************************)
(* The OBSERVABLE specification of arc-swap: a container is one atomic     *)
(* cell holding a reference-counted value; every value has an exact        *)
(* ownership ledger; handles and guards keep their target alive.           *)
(*                                                                         *)
(* It mentions no internal identifier of the crate (no slot, debt, node,   *)
(* generation): it is the ORACLE against which every execution of the real *)
(* code is validated (Trace_Abs) and which the implementation-shaped       *)
(* specification refines (ArcSwapImpl emits the same events).              *)
(*                                                                         *)
(* The module is written as a monitor over an alphabet of events.  Each    *)
(* event kind has an enabling condition, split into clauses that are       *)
(* tagged with the property they formalise, and an effect on the abstract  *)
(* state.  "Verdict" returns the first failing clause (<<property,         *)
(* reason>>) or OK; a behaviour of the specification is a sequence of      *)
(* events all of whose verdicts are OK.                                    *)
(***************************************************************************)
EXTENDS Integers, Sequences, FiniteSets, TLC

CONSTANTS
  LoadStepBound    \* C08: own steps of a load / load_full on a thread that already used the crate

Null  == 0
NoVal == -1
OK    == <<"ok", "">>

(* -------------------------------------------------------------------- *)
(* Abstract state: one record, so that trace specifications and the     *)
(* refinement mapping can pass it around as a value.                    *)
(* -------------------------------------------------------------------- *)
\*  cell    : container -> value stored (Null allowed); DOMAIN = live containers
\*  known   : objects allocated so far
\*  dead    : objects whose destructor has run
\*  cnt     : object -> strong count (shadow of what the pointer type reports)
\*  parent  : object -> the value it was derived from by an rcu closure (NoVal = none)
\*  hreg    : handle register -> value held (owned reference)
\*  greg    : guard register  -> value denoted (borrowed or owned: not observable)
\*  xreg    : cache -> value retained;  xcont : cache -> container
\*  preg    : projection guard (Access / Map / DynAccess ...) -> the value whose projection it shows
\*  ever    : container -> values ever stored in it (C12: isolation)
\*  pend    : thread -> stack of pending operations (innermost first)
\*  used    : threads that have completed at least one operation (C08 applies to them)
\*  exempt  : threads whose next read may legitimately re-acquire bookkeeping (after a wrap)
InitState ==
  [ cell |-> <<>>, known |-> {}, dead |-> {}, cnt |-> <<>>, parent |-> <<>>,
    hreg |-> <<>>, greg |-> <<>>, xreg |-> <<>>, xcont |-> <<>>, pend |-> <<>>, preg |-> <<>>, ever |-> <<>>,
    used |-> {}, exempt |-> {}, upanic |-> FALSE, alive |-> {}, peak |-> 0, tnode |-> <<>> ]

Put(f, k, v) == (k :> v) @@ f
Del(f, k)    == [x \in (DOMAIN f) \ {k} |-> f[x]]
Get(f, k)    == IF k \in DOMAIN f THEN f[k] ELSE NoVal
Get2(f, k)   == IF k \in DOMAIN f THEN f[k] ELSE {}
PendOf(s, t) == IF t \in DOMAIN s.pend THEN s.pend[t] ELSE <<>>
Top(s, t)    == Head(PendOf(s, t))
HasPend(s, t) == PendOf(s, t) # <<>>

Live(s, v) == v = Null \/ (v \in s.known /\ v \notin s.dead)

\* number of user-visible owners of object o
Owners(s, o) ==
    Cardinality({c \in DOMAIN s.cell : s.cell[c] = o})
  + Cardinality({h \in DOMAIN s.hreg : s.hreg[h] = o})
  + Cardinality({g \in DOMAIN s.greg : s.greg[g] = o})
  + Cardinality({x \in DOMAIN s.xreg : s.xreg[x] = o})
  + Cardinality({q \in DOMAIN s.preg : s.preg[q] = o})

Referenced(s, o) == Owners(s, o) > 0

\* values that some pending operation may still legitimately hand out
InFlight(s) == UNION { UNION { PendOf(s, t)[i].seen : i \in 1..Len(PendOf(s, t)) } : t \in DOMAIN s.pend }

WritingOps == {"store", "swap", "cas", "rcu"}
ReadingOps == {"load", "load_full"}
\* a value that was only ever stored in ANOTHER container
Foreign(s, c, v) == v # Null /\ (c \notin DOMAIN s.ever \/ v \notin s.ever[c]) /\ \E d \in DOMAIN s.ever : d # c /\ v \in s.ever[d]

NewPend(e, seen) ==
  [ op |-> e.op, c |-> e.c, a |-> e.a, b |-> e.b, r |-> e.r, seen |-> seen,
    wrote |-> FALSE, old |-> NoVal, new |-> NoVal, fcur |-> NoVal ]

Push(s, t, p) == [s EXCEPT !.pend = Put(s.pend, t, <<p>> \o PendOf(s, t))]
Pop(s, t)     == [s EXCEPT !.pend = Put(s.pend, t, Tail(PendOf(s, t)))]
SetTop(s, t, p) == [s EXCEPT !.pend = Put(s.pend, t, <<p>> \o Tail(PendOf(s, t)))]

\* a write to container c becomes visible to every pending operation on c (all threads, all levels)
Publish(s, c, v) ==
  [s EXCEPT !.pend = [t \in DOMAIN s.pend |->
       [i \in 1..Len(s.pend[t]) |->
           IF s.pend[t][i].c = c THEN [s.pend[t][i] EXCEPT !.seen = @ \cup {v}] ELSE s.pend[t][i]]]]

(* ==================================================================== *)
(* Events                                                               *)
(* ==================================================================== *)

\* ---- alloc(t, o, p): a new value is created by user code (argument of a write, result of an rcu closure)
AllocV(s, e) ==
  CASE e.o \in s.known -> <<"HARNESS", "object id allocated twice">>
    [] OTHER -> OK
AllocE(s, e) ==
  [s EXCEPT !.known = @ \cup {e.o}, !.cnt = Put(@, e.o, 1), !.parent = Put(@, e.o, e.p)]

\* ---- inc / dec / destroy: what the pointer type observes
\* a count operation on a destroyed value inside a projection load / cache load / serialization also breaks the
\* "keeps its snapshot alive" part of that operation's own property
UafTag(s, t) ==
  LET op == IF HasPend(s, t) THEN Top(s, t).op ELSE "none" IN
  CASE op = "acc_load" -> "C01+C17" [] op \in {"cache_load", "cache_new", "cache_clone"} -> "C01+C16" [] op = "ser" -> "C01+C20" [] OTHER -> "C01"
IncV(s, e) ==
  CASE e.dead \/ e.o \in s.dead -> <<UafTag(s, e.t), "reference count incremented after destruction">>
    [] e.o \notin s.known -> <<"C01", "count operation on something that is not a value">>
    [] e.n # s.cnt[e.o] + 1 -> <<"HARNESS", "count shadow out of sync">>
    [] OTHER -> OK
IncE(s, e) == [s EXCEPT !.cnt[e.o] = @ + 1]

DecV(s, e) ==
  CASE e.dead \/ e.o \in s.dead -> <<UafTag(s, e.t), "reference count decremented after destruction">>
    [] e.o \notin s.known -> <<"C01", "count operation on something that is not a value">>
    [] s.cnt[e.o] < 1 -> <<"C02", "count released twice (would go below zero)">>
    [] e.n # s.cnt[e.o] - 1 -> <<"HARNESS", "count shadow out of sync">>
    [] OTHER -> OK
DecE(s, e) == [s EXCEPT !.cnt[e.o] = @ - 1]

DestroyV(s, e) ==
  CASE e.o \in s.dead -> <<"C02", "value destroyed twice">>
    [] s.cnt[e.o] # 0 -> <<"HARNESS", "destroy at non-zero count">>
    [] \E g \in DOMAIN s.greg : s.greg[g] = e.o -> <<IF s.upanic THEN "C01+C02+C10+C18" ELSE "C01+C02+C10", "value destroyed while a guard still denotes it (released once too often)">>
    [] Referenced(s, e.o) -> <<"C01+C02", "value destroyed while a handle, cache or container still refers to it (released once too often)">>
    [] OTHER -> OK
DestroyE(s, e) == [s EXCEPT !.dead = @ \cup {e.o}]

\* ---- inv(t, op, c, a, b, r)
ArgLive(s, v) == Live(s, v)
InvV(s, e) ==
  CASE e.op \in {"load", "load_full", "store", "swap", "cas", "rcu", "into_inner_c", "drop_c", "cache_new", "acc_load", "ser"}
         /\ e.c \notin DOMAIN s.cell -> <<"HARNESS", "operation on a container that does not exist">>
    [] e.op = "drop_p" /\ Get(s.preg, e.r) # e.a -> <<"C17", "a projection guard no longer shows the snapshot it was created with">>
    [] e.op \in {"drop_g", "into_inner", "drop_g_arg"} /\ Get(s.greg, e.r) # e.a -> <<"C10", "a guard no longer denotes the value it was created with">>
    [] e.op \in {"drop_h"} /\ Get(s.hreg, e.r) # e.a -> <<"HARNESS", "handle register mismatch">>
    [] e.op = "from_inner" /\ Get(s.hreg, e.b) # e.a -> <<"HARNESS", "handle register mismatch">>
    [] OTHER -> OK

InvE(s, e) ==
  LET t == e.t
      seen == IF e.c \in DOMAIN s.cell THEN {s.cell[e.c]}
              ELSE IF e.op = "cache_load" /\ e.r \in DOMAIN s.xcont /\ s.xcont[e.r] \in DOMAIN s.cell
                   THEN {s.cell[s.xcont[e.r]]} ELSE {}
      c2 == IF e.op = "cache_load" /\ e.r \in DOMAIN s.xcont THEN s.xcont[e.r] ELSE e.c
      s1 == CASE e.op \in {"drop_g", "into_inner"} -> [s EXCEPT !.greg = Del(@, e.r)]
              [] e.op = "drop_g_arg" -> [s EXCEPT !.greg = Del(@, e.r)]
              [] e.op = "drop_h" -> [s EXCEPT !.hreg = Del(@, e.r)]
              [] e.op = "drop_p" -> [s EXCEPT !.preg = Del(@, e.r)]
              [] e.op = "from_inner" -> [s EXCEPT !.hreg = Del(@, e.b)]
              [] e.op = "cache_drop" -> [s EXCEPT !.xreg = Del(@, e.r), !.xcont = Del(@, e.r)]
              \* the retained value is in flight while the cache revalidates
              [] e.op = "cache_load" -> [s EXCEPT !.xreg = Del(@, e.r)]
              \* dropping / consuming needs exclusive access: the container is gone for everybody else
              [] e.op \in {"drop_c", "into_inner_c"} -> [s EXCEPT !.cell = Del(@, e.c)]
              [] OTHER -> s
      a2 == IF e.op \in {"drop_c", "into_inner_c"} THEN s.cell[e.c] ELSE e.a
  IN IF e.op = "drop_g_arg" THEN s1
     ELSE Push(s1, t, [NewPend(e, seen) EXCEPT !.c = c2, !.a = a2])

\* ---- arg(t, v): the value passed into the pending operation (new of store/swap/cas, initial value of new)
ArgV(s, e) ==
  CASE ~HasPend(s, e.t) -> <<"HARNESS", "argument without operation">>
    [] ~Live(s, e.v) -> <<"HARNESS", "dead value passed in">>
    [] OTHER -> OK
ArgE(s, e) == LET p == Top(s, e.t) IN
              SetTop(s, e.t, IF p.op = "cas" THEN [p EXCEPT !.b = e.v] ELSE [p EXCEPT !.a = e.v])

\* ---- w(t, c, old, new): THE atomic exchange on the container
WriterOf(s, t) == IF HasPend(s, t) THEN Top(s, t) ELSE NewPend([op |-> "none", c |-> -9, a |-> 0, b |-> 0, r |-> 0], {})
WriteV(s, e) ==
  LET p == WriterOf(s, e.t) IN
  CASE e.c \notin DOMAIN s.cell -> <<"HARNESS", "write to unknown container">>
    [] e.old # s.cell[e.c] -> <<"C04", "writes to one container are not totally ordered (exchange returned something that was not the stored value)">>
    [] ~(p.op \in WritingOps /\ p.c = e.c) -> <<"C12", "a container was written by an operation that does not target it">>
    [] p.wrote -> <<"C04", "one operation exchanged the stored value twice">>
    [] p.op \in {"store", "swap"} /\ e.new # p.a -> <<"C04", "stored something else than the value passed in">>
    [] p.op = "cas" /\ e.old # p.a -> <<"C05", "compare_and_swap replaced although the stored pointer differed from current">>
    [] p.op = "cas" /\ e.new # p.b -> <<"C05", "compare_and_swap stored something else than new">>
    [] p.op = "rcu" /\ (e.new \notin s.known \/ Get(s.parent, e.new) # e.old)
          -> <<"C06", "rcu installed f(v) on top of a value other than v (lost update)">>
    [] ~Live(s, e.new) -> <<"C01", "a destroyed value was stored">>
    [] OTHER -> OK
WriteE(s, e) ==
  LET p  == Top(s, e.t)
      s1 == SetTop(s, e.t, [p EXCEPT !.wrote = TRUE, !.old = e.old, !.new = e.new])
      s2 == [s1 EXCEPT !.cell[e.c] = e.new, !.ever = Put(@, e.c, Get2(@, e.c) \cup {e.new})]
  IN Publish(s2, e.c, e.new)

\* ---- rcu_f(t, c, cur, k): the user closure is called with cur
RcuFV(s, e) ==
  LET p == WriterOf(s, e.t) IN
  CASE ~(p.op = "rcu") -> <<"HARNESS", "closure outside rcu">>
    [] e.cur \notin p.seen -> <<"C06", "rcu closure was given a value that was not stored during the call">>
    [] ~Live(s, e.cur) -> <<"C01", "rcu closure was given a destroyed value">>
    [] OTHER -> OK
RcuFE(s, e) == SetTop(s, e.t, [Top(s, e.t) EXCEPT !.fcur = e.cur])

\* ---- ret(t, op, c, v, r, n)
RetV(s, e) ==
  LET p == WriterOf(s, e.t) IN
  CASE p.op # e.op /\ e.op # "noop" -> <<"HARNESS", "return does not match the pending operation">>
    [] "tn" \in DOMAIN e /\ e.tn >= 0 /\ e.tu # 1
         -> <<"C11+C10", "a thread goes on using bookkeeping that is not reserved for it (given up or in cool-down): another thread can claim it">>
    [] "tn" \in DOMAIN e /\ e.tn >= 0 /\ \E u \in s.alive \ {e.t} : Get(s.tnode, u) = e.tn
         -> <<"C11", "two live threads own the same bookkeeping">>
    [] e.op \in ReadingOps /\ e.v \notin p.seen /\ Foreign(s, p.c, e.v)
         -> <<"C03+C12", "load returned a value that was only ever stored in another container">>
    [] e.op \in ReadingOps /\ e.v \notin p.seen
         -> <<"C03", "load returned a value that was not stored in this container at any instant of the call">>
    [] e.op = "ser" /\ e.v \notin p.seen
         -> <<"C20", "serializing the container produced something else than the serialization of a value it held during the call">>
    [] e.op = "acc_load" /\ e.v \notin p.seen
         -> <<"C17", "a projection shows a value that was not stored in the container at any instant of the load">>
    [] e.op = "acc_load" /\ ~Live(s, e.v) -> <<"C01+C17", "a projection guard was created on a destroyed value">>
    [] e.op \in ReadingOps /\ ~Live(s, e.v) -> <<"C01", "load returned a destroyed value">>
    [] e.op \in ReadingOps /\ e.t \in s.used /\ e.t \notin s.exempt /\ e.n > LoadStepBound
         -> <<"C08", "load took more own steps than the wait-free bound">>
    \* a load that has to find or create its bookkeeping first (first load of a thread, after the generation wrap, from a
    \* thread-local destructor) walks the list of nodes - a few steps per node, also bounded: it never WAITS for anybody
    [] e.op \in ReadingOps /\ e.n > 4 * LoadStepBound
         -> <<"C08", "load took more own steps than looking for its bookkeeping can explain: it waited for another thread">>
    [] e.op = "store" /\ ~p.wrote -> <<"C04", "store returned without writing">>
    [] e.op = "swap" /\ ~p.wrote -> <<"C04", "swap returned without writing">>
    [] e.op = "swap" /\ e.v # p.old -> <<"C04", "swap did not return the value it replaced">>
    [] e.op = "swap" /\ ~Live(s, e.v) -> <<"C01", "swap returned a destroyed value">>
    [] e.op = "cas" /\ p.wrote /\ e.v # p.old -> <<"C04+C05", "successful compare_and_swap did not return the replaced value">>
    [] e.op = "cas" /\ ~p.wrote /\ e.v = p.a
         -> <<"C04+C05", "compare_and_swap reports success (result == current, handed back as the replaced value) but stored nothing">>
    [] e.op = "cas" /\ ~p.wrote /\ e.v \notin p.seen
         -> <<"C05", "failed compare_and_swap returned a value that was not stored during the call">>
    [] e.op = "cas" /\ ~Live(s, e.v) -> <<"C01", "compare_and_swap returned a destroyed value">>
    [] e.op = "rcu" /\ ~p.wrote -> <<"C04+C06", "rcu returned (handing back a 'replaced' value) without installing anything">>
    [] e.op = "rcu" /\ e.v # p.old -> <<"C04+C06", "rcu did not return the value it replaced">>
    [] e.op = "rcu" /\ ~Live(s, e.v) -> <<"C01", "rcu returned a destroyed value">>
    [] e.op = "into_inner_c" /\ e.v # p.a -> <<"C04", "into_inner returned something else than the stored value">>
    [] e.op = "into_inner_c" /\ ~Live(s, e.v) -> <<"C01", "into_inner returned a destroyed value">>
    [] e.op = "into_inner" /\ e.v # p.a -> <<"C10", "Guard::into_inner changed the value denoted">>
    [] e.op = "into_inner" /\ ~Live(s, e.v) -> <<"C01", "Guard::into_inner returned a destroyed value">>
    [] e.op \in {"cache_load", "cache_new"} /\ e.v \notin p.seen
         -> <<"C16", "cache returned a value that is older than allowed or was never stored">>
    [] e.op \in {"cache_load", "cache_new", "cache_clone"} /\ ~Live(s, e.v) -> <<"C01", "cache returned a destroyed value">>
    [] OTHER -> OK

RetE(s, e) ==
  LET p  == Top(s, e.t)
      s1 == [Pop(s, e.t) EXCEPT !.used = @ \cup (IF e.op \in ReadingOps \cup WritingOps THEN {e.t} ELSE {})]
      \* (after `texit` the thread-local destructors run: the node is given up there, nothing is recorded any more)
      s0 == IF "tn" \in DOMAIN e /\ Get(s.tnode, e.t) # -9 THEN [s1 EXCEPT !.tnode = Put(@, e.t, e.tn)] ELSE s1
  IN CASE e.op = "new"           -> [s0 EXCEPT !.cell = Put(@, e.c, e.v), !.ever = Put(@, e.c, {e.v})]
       [] e.op = "acc_load"      -> [s0 EXCEPT !.preg = Put(@, e.r, e.v)]
       [] e.op = "load"          -> [s0 EXCEPT !.greg = Put(@, e.r, e.v)]
       [] e.op = "load_full"     -> [s0 EXCEPT !.hreg = Put(@, e.r, e.v)]
       [] e.op = "swap"          -> [s0 EXCEPT !.hreg = Put(@, e.r, e.v)]
       [] e.op = "rcu"           -> [s0 EXCEPT !.hreg = Put(@, e.r, e.v)]
       [] e.op = "cas"           -> [s0 EXCEPT !.greg = Put(@, e.r, e.v)]
       [] e.op = "into_inner"    -> [s0 EXCEPT !.hreg = Put(@, e.r, e.v)]
       [] e.op = "from_inner"    -> [s0 EXCEPT !.greg = Put(@, e.r, e.v)]
       [] e.op = "into_inner_c"  -> [s0 EXCEPT !.hreg = Put(@, e.r, e.v)]
       [] e.op = "cache_new"     -> [s0 EXCEPT !.xreg = Put(@, e.r, e.v), !.xcont = Put(@, e.r, e.c)]
       [] e.op = "cache_load"    -> [s0 EXCEPT !.xreg = Put(@, e.r, e.v)]
       [] e.op = "cache_clone"   -> [s0 EXCEPT !.xreg = Put(@, e.r, e.v), !.xcont = Put(@, e.r, Get(s.xcont, p.a))]
       [] OTHER -> s0

\* ---- deref(t, k, r, o, alive, tag): user code looks at the value through a guard / handle / cache
DerefV(s, e) ==
  LET held == CASE e.k = "g" -> Get(s.greg, e.r) [] e.k = "h" -> Get(s.hreg, e.r) [] e.k = "p" -> Get(s.preg, e.r) [] OTHER -> Get(s.xreg, e.r) IN
  CASE e.k \in {"g", "h", "p"} /\ held = NoVal -> <<"HARNESS", "deref of an empty register">>
    [] e.k = "p" /\ held # e.o -> <<"C17", "a projection guard shows another value than the snapshot it was created with">>
    [] e.k = "p" /\ (~e.alive \/ e.o \in s.dead) -> <<"C01+C17", "a projection guard does not keep its snapshot alive">>
    [] e.k \in {"g", "h"} /\ held # e.o
         -> <<(IF e.k = "g" THEN "C10" ELSE "C01"), "a guard or handle dereferences to another value than the one it was created with">>
    [] ~e.alive \/ e.o \in s.dead -> <<(IF e.k = "g" THEN "C01+C10" ELSE IF e.k = "s" THEN "C01+C20" ELSE "C01"), "dereference of a destroyed value">>
    [] e.k = "k" /\ e.tag # e.o -> <<"C17", "a projection of a Constant does not yield the constant's own value">>
    [] e.tag # e.o -> <<"C17", "projection of a value shows a field of another value (torn snapshot)">>
    [] OTHER -> OK

\* ---- panic(t, user, msg, n): an operation unwound
PanicV(s, e) ==
  LET p == WriterOf(s, e.t) IN
  CASE ~e.user -> <<"C13", "an operation panicked on its own account">>
    [] p.op = "rcu" /\ p.wrote -> <<"C18", "a panicking rcu closure changed the container">>
    [] OTHER -> OK
\* the unwound operation disappears; a value displaced by its own write is released by the library
PanicE(s, e) == [s EXCEPT !.pend = Put(@, e.t, <<>>), !.upanic = TRUE]

\* ---- q(cnt, dead, slots, busy, wr): a quiescent point (no thread inside an operation)
QCnt(e, o) == LET m == {i \in 1..Len(e.cnt) : e.cnt[i][1] = o} IN
              IF m = {} THEN 0 ELSE e.cnt[CHOOSE i \in m : TRUE][2]
QSlots(e, o) == Cardinality({i \in 1..Len(e.slots) : e.slots[i] = o})
\* after a panic in user code the ledger clauses are the "consistent after unwinding" claim (C18)
LP(s) == IF s.upanic THEN "C18" ELSE "C02"
QuiescentV(s, e) ==
  CASE \E t \in DOMAIN s.pend : s.pend[t] # <<>> -> <<"HARNESS", "quiescent point with pending operation">>
    [] \E o \in s.known \ s.dead : QCnt(e, o) # s.cnt[o] -> <<"HARNESS", "count shadow differs from the pointer's own count">>
    [] \E i \in 1..Len(e.slots) : e.slots[i] # Null /\ e.slots[i] \notin (s.known \ s.dead)
         -> <<LP(s), "a borrow slot is occupied by something that is not a live value">>
    [] \E o \in s.known \ s.dead : s.cnt[o] + QSlots(e, o) > Owners(s, o)
         -> <<LP(s), "a value has more references than owners (leak)">>
    [] \E o \in s.known \ s.dead : s.cnt[o] + QSlots(e, o) < Owners(s, o)
         -> <<LP(s), "a value has fewer references than owners (double release pending)">>
    [] \E o \in (s.known \ s.dead) \cup {Null} : QSlots(e, o) > Cardinality({g \in DOMAIN s.greg : s.greg[g] = o}) + Cardinality({q \in DOMAIN s.preg : s.preg[q] = o})
         -> <<LP(s), "a borrow slot stays occupied after its guard is gone">>
    [] \E o \in s.known \ s.dead : Owners(s, o) = 0
         -> <<LP(s), "a value without owners has not been destroyed (reclamation is not tight)">>
    [] \E o \in s.dead : Referenced(s, o) -> <<"C01", "a destroyed value is still referenced">>
    [] e.busy # 0 -> <<LP(s), "a read transaction was left open at a quiescent point">>
    [] e.wr # 0 -> <<"C11", "a writer reservation was left behind at a quiescent point">>
    [] \E i, j \in 1..Len(e.spaces) : i < j /\ e.spaces[i] = e.spaces[j] /\ e.spaces[i] > 0
         -> <<"C01+C03", "two threads' bookkeeping share one hand-over envelope at a quiescent point (a later helped load can be handed another load's value)">>
    [] Cardinality({i \in 1..Len(e.inuse) : e.inuse[i] = 1}) > Cardinality(s.alive)
         -> <<"C11", "more per-thread bookkeeping is reserved than threads are alive (bookkeeping of a finished thread is not given back, it can never be reused)">>
    [] Len(e.inuse) > 2 * s.peak + 1
         -> <<"C11", "more per-thread bookkeeping exists than twice the peak number of threads alive at once (not reused)">>
    [] OTHER -> OK

(* -------------------------------------------------------------------- *)
(* One step of the monitor                                              *)
(* -------------------------------------------------------------------- *)
Verdict(s, e) ==
  CASE e.e = "alloc"   -> AllocV(s, e)
    [] e.e = "inc"     -> IncV(s, e)
    [] e.e = "dec"     -> DecV(s, e)
    [] e.e = "destroy" -> DestroyV(s, e)
    [] e.e = "inv"     -> InvV(s, e)
    [] e.e = "arg"     -> ArgV(s, e)
    [] e.e = "w"       -> WriteV(s, e)
    [] e.e = "rcu_f"   -> RcuFV(s, e)
    [] e.e = "ret"     -> RetV(s, e)
    [] e.e = "deref"   -> DerefV(s, e)
    [] e.e = "panic"   -> PanicV(s, e)
    [] e.e = "q"       -> QuiescentV(s, e)
    [] e.e = "crash"   -> <<"C13", "the process aborted or hung inside an operation">>
    [] OTHER -> OK

Effect(s, e) ==
  CASE e.e = "alloc"   -> AllocE(s, e)
    [] e.e = "inc"     -> IncE(s, e)
    [] e.e = "dec"     -> DecE(s, e)
    [] e.e = "destroy" -> DestroyE(s, e)
    [] e.e = "inv"     -> InvE(s, e)
    [] e.e = "arg"     -> ArgE(s, e)
    [] e.e = "w"       -> WriteE(s, e)
    [] e.e = "rcu_f"   -> RcuFE(s, e)
    [] e.e = "ret"     -> RetE(s, e)
    [] e.e = "panic"   -> PanicE(s, e)
    [] e.e \in {"setgen", "tls_dtor"} -> [s EXCEPT !.exempt = @ \cup {e.t}]
    [] e.e = "tstart" -> [s EXCEPT !.alive = @ \cup {e.t}, !.peak = IF Cardinality(s.alive \cup {e.t}) > @ THEN Cardinality(s.alive \cup {e.t}) ELSE @]
    [] e.e = "texit"  -> [s EXCEPT !.tnode = Put(@, e.t, -9)]
    [] e.e = "gone"   -> [s EXCEPT !.alive = @ \ {e.t}, !.tnode = Put(@, e.t, -9)]
    [] OTHER -> s
=============================================================================

SPECIFICATION Spec
CONSTANTS
  Prog <- P_wrap2c
  Threads = {1, 2}
  Conts = {1, 2}
  NF = 0
  GenMod = 2
  NAddr = 4
  MaxNodes = 3
  MaxObj = 4
  WrapMode = "fixed"
  MaxSpur = 1
  SoloOn = FALSE
  Bug = "wrap_not_detected"
  Hist = "off"
  UseFast = TRUE
INVARIANTS Refines HeldLive StoredLive NodeExclusive NodeUsedOwned Ledger EnvelopeLinear LoadSteps NodeBound TypeOK
CHECK_DEADLOCK FALSE

--------------------------- MODULE Trace_Abs ---------------------------
(***************************************************************************)
(* Trace validation of real executions against ArcSwapAbs.                 *)
(*                                                                         *)
(* The trace (NDJSON, one execution after another, separated by "begin")   *)
(* is consumed line by line.  Every line is evaluated against the          *)
(* enabling condition of the corresponding ArcSwapAbs event; the first     *)
(* failing clause of an execution is recorded (property, line, reason) and *)
(* the rest of that execution is skipped.  The run is accepted iff TLC     *)
(* reaches the end of the trace (checked with the diameter) and the list   *)
(* of violations is empty; the list is printed for the orchestrator.       *)
(***************************************************************************)
EXTENDS ArcSwapAbs, Json, IOUtils

CONSTANT SoloStepBound   \* C09: own steps of an operation that runs alone

Rec == ndJsonDeserialize(IOEnv.TRACE)
N   == Len(Rec)

VARIABLES l, st, skip, viols, nexec
tvars == <<l, st, skip, viols, nexec>>

TInit == /\ l = 1 /\ st = InitState /\ skip = FALSE /\ viols = <<>> /\ nexec = 0

Step ==
  /\ l <= N
  /\ l' = l + 1
  /\ LET e == Rec[l] IN
     IF e.e = "begin" THEN
        /\ st' = InitState /\ skip' = FALSE /\ nexec' = nexec + 1 /\ UNCHANGED viols
     ELSE IF skip THEN UNCHANGED <<st, skip, viols, nexec>>
     ELSE IF e.e = "end" THEN
        /\ IF e.overrun
           THEN viols' = Append(viols, [x |-> nexec, line |-> l,
                                        prop |-> IF \E t \in DOMAIN st.pend : st.pend[t] # <<>> /\ Head(st.pend[t]).op \in ReadingOps THEN "C08+C09" ELSE "C09",
                                        why |-> "execution exceeded the step limit: some operation does not complete"])
           ELSE IF e.info.solo_max > SoloStepBound
           THEN viols' = Append(viols, [x |-> nexec, line |-> l, prop |-> "C09", why |-> "an operation running alone (all other threads frozen) did not complete within the bound"])
           ELSE UNCHANGED viols
        /\ UNCHANGED <<st, skip, nexec>>
     ELSE LET v == Verdict(st, e) IN
        IF v = OK THEN /\ st' = Effect(st, e) /\ UNCHANGED <<skip, viols, nexec>>
        ELSE /\ viols' = Append(viols, [x |-> nexec, line |-> l, prop |-> v[1], why |-> v[2]])
             /\ skip' = TRUE /\ UNCHANGED <<st, nexec>>

Done == /\ l = N + 1 /\ UNCHANGED tvars

TSpec == TInit /\ [][Step]_tvars

\* reported once, from the last state
Report ==
  l = N + 1 =>
     /\ PrintT(<<"TRACE_ABS_DONE", N, nexec, Len(viols)>>)
     /\ \A i \in 1..Len(viols) : PrintT(<<"TRACE_ABS_VIOLATION", viols[i].x, viols[i].line, viols[i].prop, viols[i].why>>)

Accepted == TLCGet("stats").diameter = N + 1
=============================================================================

SPECIFICATION Spec
CONSTANTS
  Prog <- P_hc1
  Threads = {1, 2, 3}
  Conts = {1}
  NF = 0
  GenMod = 4
  NAddr = 3
  MaxNodes = 3
  MaxObj = 3
  WrapMode = "fixed"
  MaxSpur = 1
  SoloOn = FALSE
  Bug = ""
  Hist = "off"
  UseFast = TRUE
INVARIANTS Refines HeldLive StoredLive NodeExclusive NodeUsedOwned Ledger EnvelopeLinear LoadSteps NodeBound TypeOK
CHECK_DEADLOCK FALSE

------------------------------- MODULE SeqGen -------------------------------
(***************************************************************************)
(* Generator of ALL single-threaded API programs up to a given length      *)
(* (C14, C16, C17): the sequential face of ArcSwapAbs.  The state is the   *)
(* abstract content of the registers and the containers, kept only to      *)
(* emit well-formed programs (an operation is offered only when its        *)
(* operands exist) and to tell programs apart by their abstract effect.    *)
(* Every program is printed as one JSON line in the input format of the    *)
(* harness; the harness runs it under every strategy and Trace_Abs is the  *)
(* oracle (in a sequential run the `seen` set of every operation is a      *)
(* singleton, so ArcSwapAbs pins every returned identity and every count). *)
(***************************************************************************)
EXTENDS Integers, Sequences, FiniteSets, TLC, Json

CONSTANTS MaxLen,     \* program length
          NC,         \* containers 0..NC-1
          NG, NH,     \* guard / handle registers 0..NG-1, 0..NH-1
          WithCache   \* TRUE: cache operations too (C16)

VARIABLES cell, g, h, x, nobj, hist
vars == <<cell, g, h, x, nobj, hist>>

Empty == -1
Conts == 0..(NC - 1)
GR == 0..(NG - 1)
HR == 0..(NH - 1)

Init == /\ cell = [c \in Conts |-> c + 1]           \* container c starts with a fresh value
        /\ g = [r \in GR |-> Empty] /\ h = [r \in HR |-> Empty] /\ x = Empty
        /\ nobj = NC
        /\ hist = [c \in Conts |-> [op |-> "new", c |-> c, v |-> [new |-> [pd |-> FALSE]]]]
                  \* (a function 0..NC-1; turned into a sequence when printed)

NewSrc == [new |-> [pd |-> FALSE]]
Srcs == {<<"new", NewSrc>>, <<"null", "null">>} \cup {<<"h", [h |-> r]>> : r \in {r \in HR : h[r] # Empty}}
SrcVal(s) == CASE s[1] = "new" -> nobj + 1 [] s[1] = "null" -> 0 [] OTHER -> h[s[2].h]
SrcBump(s) == IF s[1] = "new" THEN nobj + 1 ELSE nobj

Curs == {<<"null", "null", 0>>}
        \cup {<<"gref", [gref |-> r], r>> : r \in {r \in GR : g[r] # Empty}}
        \cup {<<"g", [g |-> r], r>> : r \in {r \in GR : g[r] # Empty}}
        \cup {<<"h", [h |-> r], r>> : r \in {r \in HR : h[r] # Empty}}
        \cup {<<"rm", [raw_mut |-> r], r>> : r \in {r \in HR : h[r] # Empty}}
        \cup {<<"rc", [raw_const |-> r], r>> : r \in {r \in HR : h[r] # Empty}}
CurVal(cu) == CASE cu[1] = "null" -> 0 [] cu[1] \in {"gref", "g"} -> g[cu[3]] [] OTHER -> h[cu[3]]

Len2(f) == Cardinality(DOMAIN f)
Log(o) == hist' = [i \in 0..(Len2(hist)) |-> IF i < Len2(hist) THEN hist[i] ELSE o]

Live(c) == c \in DOMAIN cell

Load(c, r)      == /\ Live(c) /\ g' = [g EXCEPT ![r] = cell[c]] /\ Log([op |-> "load", c |-> c, g |-> r]) /\ UNCHANGED <<cell, h, x, nobj>>
LoadFull(c, r)  == /\ Live(c) /\ h' = [h EXCEPT ![r] = cell[c]] /\ Log([op |-> "load_full", c |-> c, h |-> r]) /\ UNCHANGED <<cell, g, x, nobj>>
DropG(r)        == /\ g[r] # Empty /\ g' = [g EXCEPT ![r] = Empty] /\ Log([op |-> "drop_g", g |-> r]) /\ UNCHANGED <<cell, h, x, nobj>>
DropH(r)        == /\ h[r] # Empty /\ h' = [h EXCEPT ![r] = Empty] /\ Log([op |-> "drop_h", h |-> r]) /\ UNCHANGED <<cell, g, x, nobj>>
IntoInner(r, q) == /\ g[r] # Empty /\ h' = [h EXCEPT ![q] = g[r]] /\ g' = [g EXCEPT ![r] = Empty]
                   /\ Log([op |-> "into_inner", g |-> r, h |-> q]) /\ UNCHANGED <<cell, x, nobj>>
FromInner(q, r) == /\ h[q] # Empty /\ g' = [g EXCEPT ![r] = h[q]] /\ h' = [h EXCEPT ![q] = Empty]
                   /\ Log([op |-> "from_inner", h |-> q, g |-> r]) /\ UNCHANGED <<cell, x, nobj>>
Store(c, s)     == /\ Live(c) /\ cell' = [cell EXCEPT ![c] = SrcVal(s)] /\ nobj' = SrcBump(s)
                   /\ Log([op |-> "store", c |-> c, v |-> s[2]]) /\ UNCHANGED <<g, h, x>>
Swap(c, s, q)   == /\ Live(c) /\ cell' = [cell EXCEPT ![c] = SrcVal(s)] /\ nobj' = SrcBump(s) /\ h' = [h EXCEPT ![q] = cell[c]]
                   /\ Log([op |-> "swap", c |-> c, v |-> s[2], h |-> q]) /\ UNCHANGED <<g, x>>
Cas(c, cu, s, r) ==
  /\ Live(c) /\ nobj' = SrcBump(s)
  /\ cell' = IF CurVal(cu) = cell[c] THEN [cell EXCEPT ![c] = SrcVal(s)] ELSE cell
  /\ LET g1 == IF cu[1] = "g" THEN [g EXCEPT ![cu[3]] = Empty] ELSE g IN g' = [g1 EXCEPT ![r] = cell[c]]
  /\ Log([op |-> "cas", c |-> c, cur |-> cu[2], v |-> s[2], g |-> r]) /\ UNCHANGED <<h, x>>
Rcu(c, q)       == /\ Live(c) /\ cell' = [cell EXCEPT ![c] = nobj + 1] /\ nobj' = nobj + 1 /\ h' = [h EXCEPT ![q] = cell[c]]
                   /\ Log([op |-> "rcu", c |-> c, h |-> q]) /\ UNCHANGED <<g, x>>
IntoInnerC(c, q) == /\ Live(c) /\ x = Empty /\ h' = [h EXCEPT ![q] = cell[c]] /\ cell' = [d \in (DOMAIN cell) \ {c} |-> cell[d]]
                   /\ Log([op |-> "into_inner_c", c |-> c, h |-> q]) /\ UNCHANGED <<g, x, nobj>>
DropC(c)        == /\ Live(c) /\ x = Empty /\ cell' = [d \in (DOMAIN cell) \ {c} |-> cell[d]]
                   /\ Log([op |-> "drop_c", c |-> c]) /\ UNCHANGED <<g, h, x, nobj>>
DerefG(r)       == /\ g[r] # Empty /\ Log([op |-> "deref_g", g |-> r]) /\ UNCHANGED <<cell, g, h, x, nobj>>
\* m: a mapped cache (Cache::map) - the same abstract behaviour
CacheNew(m)     == /\ WithCache /\ x = Empty /\ Live(0) /\ x' = cell[0] /\ Log([op |-> "cache_new", x |-> 0, c |-> 0, m |-> m]) /\ UNCHANGED <<cell, g, h, nobj>>
CacheLoad       == /\ WithCache /\ x # Empty /\ x' = cell[0] /\ Log([op |-> "cache_load", x |-> 0]) /\ UNCHANGED <<cell, g, h, nobj>>
CacheDrop       == /\ WithCache /\ x # Empty /\ x' = Empty /\ Log([op |-> "cache_drop", x |-> 0]) /\ UNCHANGED <<cell, g, h, nobj>>

Next ==
  /\ Len2(hist) < MaxLen + NC
  /\ \/ \E c \in Conts, r \in GR : Load(c, r)
     \/ \E c \in Conts, r \in HR : LoadFull(c, r)
     \/ \E r \in GR : DropG(r) \/ DerefG(r)
     \/ \E r \in HR : DropH(r)
     \/ \E r \in GR, q \in HR : IntoInner(r, q) \/ FromInner(q, r)
     \/ \E c \in Conts, s \in Srcs : Store(c, s)
     \/ \E c \in Conts, s \in Srcs, q \in HR : Swap(c, s, q)
     \/ \E c \in Conts, cu \in Curs, s \in Srcs, r \in GR : Cas(c, cu, s, r)
     \/ \E c \in Conts, q \in HR : Rcu(c, q)
     \/ \E c \in Conts, q \in HR : IntoInnerC(c, q)
     \/ \E c \in Conts : DropC(c)
     \/ CacheNew(TRUE) \/ CacheNew(FALSE) \/ CacheLoad \/ CacheDrop

Spec == Init /\ [][Next]_vars

\* target registers must be free (the driver would first release them as an operation of its own; keep programs canonical)
\* -- not enforced: overwriting is part of the API surface (assignment drops the previous guard)

PrintProgram ==
  Len2(hist) = MaxLen + NC =>
    PrintT(<<"PROG", ToJson([i \in 1..Len2(hist) |-> hist[i - 1]])>>)
=============================================================================

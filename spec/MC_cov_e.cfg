SPECIFICATION Spec
CONSTANTS
  Prog <- P_cov_e
  Threads = {1, 2}
  Conts = {1}
  NF = 8
  GenMod = 4
  NAddr = 4
  MaxNodes = 2
  MaxObj = 4
  WrapMode = "fixed"
  MaxSpur = 1
  SoloOn = FALSE
  Bug = ""
  Hist = "all"
  UseFast = TRUE
INVARIANTS PrintDone Refines
CHECK_DEADLOCK FALSE

----------------------------- MODULE AutoTraits -----------------------------
(***************************************************************************)
(* C19: the table of Send / Sync that the auto-trait algebra of Rust gives *)
(* for the crate's public generic types, from the structure the property   *)
(* speaks about ("a container, guard, cache or projection is Send (Sync)   *)
(* only if sending (sharing) the pointer it stores would be allowed").     *)
(* TLC evaluates the table and prints one JSON row per instantiation; the  *)
(* harness asks rustc the same questions about the real types              *)
(* (asv seq autotraits) and tools/props.py compares.                       *)
(*                                                                         *)
(* Algebra: Arc<U> and Weak<U> are Send and Sync iff U is Send + Sync;     *)
(* Rc<U> never; Option<P> as P; &X is Send and Sync iff X is Sync; a       *)
(* struct is the conjunction of its fields; fn pointers, AtomicPtr and     *)
(* PhantomData<fn() -> T> are always both; Box<dyn Deref> is neither;      *)
(* Box<X> is as X; &dyn Fn is neither, &(dyn Fn + Sync) is both.           *)
(***************************************************************************)
EXTENDS Integers, Sequences, TLC, Json

Pointees == { [name |-> "both", send |-> TRUE, sync |-> TRUE], [name |-> "send_only", send |-> TRUE, sync |-> FALSE],
              [name |-> "sync_only", send |-> FALSE, sync |-> TRUE], [name |-> "neither", send |-> FALSE, sync |-> FALSE] }
Ptrs == {"Arc", "OptionArc", "Rc", "OptionRc", "Weak"}

ArcLike(u) == u.send /\ u.sync
PtrSend(p, u) == IF p \in {"Rc", "OptionRc"} THEN FALSE ELSE ArcLike(u)
PtrSync(p, u) == PtrSend(p, u)

\* the container: AtomicPtr<Base> x PhantomData<P> x strategy (a unit-like type or RwLock<()>)
ASend(p, u) == PtrSend(p, u)
ASync(p, u) == PtrSync(p, u)
ArcOf(send, sync) == [send |-> send /\ sync, sync |-> send /\ sync]
RefOf(send, sync) == [send |-> sync, sync |-> sync]

Row(w, p, u, st, s, y) == [wrapper |-> w, ptr |-> p, pointee |-> u.name, strategy |-> st, send |-> s, sync |-> y,
                           exact |-> w # "DynGuard"]

Rows ==
  UNION { LET a == ArcOf(ASend(p, u), ASync(p, u))
              r == RefOf(ASend(p, u), ASync(p, u)) IN
          { Row("ptr", p, u, "-", PtrSend(p, u), PtrSync(p, u)),
            Row("ArcSwapAny", p, u, "default", ASend(p, u), ASync(p, u)),
            Row("ArcSwapAny", p, u, "rwlock", ASend(p, u), ASync(p, u)),
            Row("Guard", p, u, "default", PtrSend(p, u), PtrSync(p, u)),
            Row("Guard", p, u, "rwlock", PtrSend(p, u), PtrSync(p, u)),
            Row("Cache<Arc>", p, u, "default", a.send /\ PtrSend(p, u), a.sync /\ PtrSync(p, u)),
            Row("Cache<&>", p, u, "default", r.send /\ PtrSend(p, u), r.sync /\ PtrSync(p, u)),
            Row("Map<Arc>", p, u, "default", a.send, a.sync),
            Row("MapGuard", p, u, "default", PtrSend(p, u), PtrSync(p, u)),
            \* other handles to the container (type parameter A of Cache / Map / MapCache): Rc never, Box as its content
            Row("Cache<Rc>", p, u, "default", FALSE, FALSE),
            Row("Cache<Box>", p, u, "default", ASend(p, u) /\ PtrSend(p, u), ASync(p, u) /\ PtrSync(p, u)),
            Row("Map<Rc>", p, u, "default", FALSE, FALSE),
            Row("MapCache<Arc>", p, u, "default", a.send /\ PtrSend(p, u), a.sync /\ PtrSync(p, u)),
            Row("MapCache<Rc>", p, u, "default", FALSE, FALSE),
            \* the projection (type parameter F) is a field too: a thread-bound closure (here &dyn Fn, not Sync) makes
            \* the wrapper thread-bound, &(dyn Fn + Sync) does not
            Row("Map<Arc>/F=local", p, u, "default", FALSE, FALSE),
            Row("Map<Arc>/F=shared", p, u, "default", a.send, a.sync),
            Row("MapGuard/F=local", p, u, "default", FALSE, FALSE),
            Row("MapGuard/F=shared", p, u, "default", PtrSend(p, u), PtrSync(p, u)),
            Row("MapCache<Arc>/F=local", p, u, "default", FALSE, FALSE),
            Row("MapCache<Arc>/F=shared", p, u, "default", a.send /\ PtrSend(p, u), a.sync /\ PtrSync(p, u)),
            Row("DynGuard", p, u, "-", FALSE, FALSE),
            Row("Constant", p, u, "-", PtrSend(p, u), PtrSync(p, u)) } : <<p, u>> \in Ptrs \X Pointees }

\* soundness as the property states it: nothing that wraps the pointer is more permissive than the pointer
Sound == \A r \in Rows : r.wrapper # "ptr" =>
            LET base == CHOOSE b \in Rows : b.wrapper = "ptr" /\ b.ptr = r.ptr /\ b.pointee = r.pointee IN
            (r.send => base.send) /\ (r.sync => base.sync)

VARIABLE x
Init == x = 0
Next == x' = x
Spec == Init /\ [][Next]_x
Emit == /\ Sound
         /\ \A r \in Rows : PrintT(<<"TRAIT", ToJson(r)>>)
=============================================================================

SPECIFICATION FairSpec
CONSTANTS
  Prog <- P_cassw
  Threads = {1,2}
  NAddr = 4
  MaxObj = 5
  Bug = "cas_not_atomic"
INVARIANTS Refines LockOK StoredLive HeldLive
PROPERTY Termination
CHECK_DEADLOCK FALSE

SPECIFICATION Spec
CONSTANTS
  Prog <- P_cov_c
  Threads = {1, 2, 3}
  Conts = {1}
  NF = 8
  GenMod = 4
  NAddr = 5
  MaxNodes = 3
  MaxObj = 6
  WrapMode = "fixed"
  MaxSpur = 0
  SoloOn = FALSE
  Bug = ""
  Hist = "all"
  UseFast = TRUE
INVARIANTS PrintDone Refines
CHECK_DEADLOCK FALSE

---- MODULE WeakFast ----
(***************************************************************************)
(* Weak-memory model of the FAST read path (attempt / confirm / pay) versus *)
(* a storing writer, with address reuse.  View-based semantics (DESIGN     *)
(* section 4): per-location message lists, per-thread views, release /     *)
(* acquire, a global SeqCst view that carries only atomic coordinates,     *)
(* stale reads allowed, failing CAS = load with the failure ordering.      *)
(* The ordering of every access is a CONSTANT: tools/props.py feeds the    *)
(* table EXTRACTED FROM THE REAL CODE (Trace_Mem) into these constants.    *)
(* err = "ok" | uaf-* | race-* (first problem found).                      *)
(***************************************************************************)
EXTENDS Naturals, FiniteSets, Sequences, TLC
CONSTANTS StrictSC, NSwaps, OrdFirst, OrdConfirm, OrdSlotSwap, OrdStSwap, OrdPayOk, OrdPayFail, OrdPayOkW, OrdPayFailW, OrdPayFailR4
R == "r"  W == "w"
Threads == {R, W}
Addrs == {1, 2}
NONE == 0
ALocs == {"st", "sl", "rc1", "rc2"}           \* atomic locations
NLocs == {"d1", "d2", "er"}                    \* non-atomic clocks: data init/destroy clock per addr, reader epoch
Locs == ALocs \cup NLocs
ZeroV == [l \in Locs |-> 0]
Join(a, b) == [l \in Locs |-> IF a[l] >= b[l] THEN a[l] ELSE b[l]]
AtomOnly(v) == [l \in Locs |-> IF l \in ALocs THEN v[l] ELSE 0]
Rc(a) == IF a = 1 THEN "rc1" ELSE "rc2"
D(a) == IF a = 1 THEN "d1" ELSE "d2"
IsAcq(o) == o \in {"acq", "acqrel", "sc"}
IsRel(o) == o \in {"rel", "acqrel", "sc"}
VARIABLES mem,    \* [ALocs -> Seq([val, view, sc])]
          cur, acq, \* thread views
          G,      \* global SC view
          dclk,   \* [Addrs -> Nat] current incarnation clock of data
          live,   \* [Addrs -> BOOLEAN]
          pc, loc, err
vars == <<mem, cur, acq, G, dclk, live, pc, loc, err>>

Last(x) == mem[x][Len(mem[x])]
\* --- generic effects, computed as records [mem, cur, acq, G, val]
\* StrictSC = FALSE: "SeqCst synchronises the time lines" (what the crate's comments assume and every mainstream
\* hardware mapping provides): a SeqCst access sees, for EVERY atomic location, at least what any earlier SeqCst
\* access had seen.  StrictSC = TRUE: ISO C++20 / Rust: the SeqCst order only constrains SeqCst accesses to the
\* SAME location (a SeqCst load reads the last SeqCst write to that location or a later one); a non-SeqCst load
\* that follows a SeqCst read-modify-write of ANOTHER location may still be stale.
PreSC(t, o) == IF o = "sc" /\ ~StrictSC THEN Join(cur[t], G) ELSE cur[t]
\* load of message i of x by t with order o
LoadEff(t, x, i, o) ==
  LET c0 == PreSC(t, o)
      m == mem[x][i]
      c1 == [c0 EXCEPT ![x] = i]
      c2 == IF IsAcq(o) THEN Join(c1, m.view) ELSE c1
      a2 == Join(Join(acq[t], m.view), c2)
  IN [cur |-> c2, acq |-> a2, G |-> IF o = "sc" THEN Join(G, AtomOnly(c2)) ELSE G, val |-> m.val]
\* readable indices
Readable(t, x, o) ==
  LET c0 == PreSC(t, o)
      lo1 == c0[x]
      scs == {j \in 1..Len(mem[x]) : mem[x][j].sc}
      lastsc == IF scs = {} THEN 1 ELSE CHOOSE j \in scs : \A k \in scs : k <= j
      lo == IF o = "sc" /\ lastsc > lo1 THEN lastsc ELSE lo1
  IN {i \in 1..Len(mem[x]) : i >= lo /\ i >= 1}
\* write (store or rmw-write part) appended; view released
WriteEff(t, x, v, o, c0, rdview) ==
  LET i == Len(mem[x]) + 1
      c1 == [c0 EXCEPT ![x] = i]
      mv == IF IsRel(o) THEN Join(c1, rdview) ELSE Join([ZeroV EXCEPT ![x] = i], rdview)
  IN [mem |-> [mem EXCEPT ![x] = Append(@, [val |-> v, view |-> mv, sc |-> (o = "sc")])],
      cur |-> c1, G |-> IF o = "sc" THEN Join(G, AtomOnly(c1)) ELSE G]
\* RMW: reads last, writes new
RmwEff(t, x, v, o) ==
  LET i == Len(mem[x])
      le == LoadEff(t, x, i, o)
      we == WriteEff(t, x, v, o, le.cur, mem[x][i].view)
  IN [mem |-> we.mem, cur |-> we.cur, acq |-> Join(le.acq, we.cur), G |-> Join(le.G, we.G), val |-> le.val]

Init ==
  /\ mem = [x \in ALocs |-> << [val |-> (IF x = "st" THEN 1 ELSE IF x = "rc1" THEN 1 ELSE 0),
                                 view |-> [ZeroV EXCEPT !["d1"] = 1], sc |-> TRUE] >>]
  /\ cur = [t \in Threads |-> [ZeroV EXCEPT !["d1"] = 1, !["st"] = 1, !["sl"] = 1, !["rc1"] = 1, !["rc2"] = 1]]
  /\ acq = cur
  /\ G = [ZeroV EXCEPT !["d1"] = 1, !["st"] = 1, !["sl"] = 1, !["rc1"] = 1, !["rc2"] = 1]
  /\ dclk = [a \in Addrs |-> IF a = 1 THEN 1 ELSE 0]
  /\ live = [a \in Addrs |-> a = 1]
  /\ pc = [t \in Threads |-> "start"]
  /\ loc = [t \in Threads |-> [p |-> 0, n |-> 0, old |-> 0, debt |-> FALSE, ep |-> 0, pinc |-> 0]]
  /\ err = "ok"

Apply(t, e) == /\ mem' = e.mem /\ cur' = [cur EXCEPT ![t] = e.cur] /\ acq' = [acq EXCEPT ![t] = e.acq] /\ G' = e.G
ApplyL(t, e) == /\ cur' = [cur EXCEPT ![t] = e.cur] /\ acq' = [acq EXCEPT ![t] = e.acq] /\ G' = e.G /\ UNCHANGED mem
Goto(t, l) == pc' = [pc EXCEPT ![t] = l]

\* ---- refcount ops as sub-steps
\* inc: rmw relaxed; dec: rmw release, at zero acquire fence + destroy
IncStep(t, a, next) ==
  LET e == RmwEff(t, Rc(a), Last(Rc(a)).val + 1, "rlx") IN
  /\ Apply(t, e) /\ Goto(t, next)
  /\ err' = IF ~live[a] THEN "uaf-inc" ELSE err
  /\ UNCHANGED <<dclk, live, loc>>
DecStep(t, a, next) ==
  LET old == Last(Rc(a)).val
      e == RmwEff(t, Rc(a), IF old = 0 THEN 0 ELSE old - 1, "rel")
      cfin == Join(e.cur, e.acq)   \* fence(Acquire) when hitting zero
  IN /\ Goto(t, next)
     /\ IF ~live[a] \/ old = 0 THEN /\ err' = "uaf-dec" /\ Apply(t, e) /\ UNCHANGED <<dclk, live>>
        ELSE IF old = 1 THEN
             /\ mem' = e.mem /\ G' = e.G /\ acq' = [acq EXCEPT ![t] = e.acq]
             /\ live' = [live EXCEPT ![a] = FALSE]
             /\ dclk' = [dclk EXCEPT ![a] = @ + 1]
             /\ cur' = [cur EXCEPT ![t] = [cfin EXCEPT ![D(a)] = dclk[a] + 1]]
             \* destroy is a write to data: must see the incarnation and all reader derefs of it
             /\ err' = IF cfin[D(a)] < dclk[a] THEN "race-destroy-init"
                       ELSE IF loc[R].ep > cfin["er"] /\ loc[R].p = a /\ loc[R].pinc = dclk[a] /\ t # R THEN "race-destroy-read" ELSE err
        ELSE /\ Apply(t, e) /\ UNCHANGED <<dclk, live, err>>
     /\ UNCHANGED loc

\* ---- reader
R1 == /\ pc[R] = "start"
      /\ \E i \in Readable(R, "st", OrdFirst) : LET e == LoadEff(R, "st", i, OrdFirst) IN
           /\ ApplyL(R, e) /\ loc' = [loc EXCEPT ![R].p = e.val]
      /\ Goto(R, "R2") /\ UNCHANGED <<dclk, live, err>>
R2 == /\ pc[R] = "R2" /\ LET e == RmwEff(R, "sl", loc[R].p, OrdSlotSwap) IN Apply(R, e)
      /\ Goto(R, "R3") /\ UNCHANGED <<dclk, live, err, loc>>
R3 == /\ pc[R] = "R3"
      /\ \E i \in Readable(R, "st", OrdConfirm) : LET e == LoadEff(R, "st", i, OrdConfirm) IN
           /\ ApplyL(R, e)
           /\ IF e.val = loc[R].p THEN Goto(R, "use") /\ loc' = [loc EXCEPT ![R].debt = TRUE]
              ELSE Goto(R, "R4") /\ UNCHANGED loc
      /\ UNCHANGED <<dclk, live, err>>
\* pay back own debt after failed confirm
CasSlot(t, exp, new, ook, ofail, lok, lfail) ==
  \/ /\ Last("sl").val = exp /\ LET e == RmwEff(t, "sl", new, ook) IN Apply(t, e) /\ Goto(t, lok)
  \/ \E i \in Readable(t, "sl", ofail) : /\ mem["sl"][i].val # exp
        /\ LET e == LoadEff(t, "sl", i, ofail) IN ApplyL(t, e) /\ Goto(t, lfail)
R4 == /\ pc[R] = "R4" /\ CasSlot(R, loc[R].p, NONE, OrdPayOk, OrdPayFailR4, "done", "useowned")
      /\ UNCHANGED <<dclk, live, err, loc>>
UseOwned == /\ pc[R] = "useowned" /\ Goto(R, "use") /\ UNCHANGED <<mem, cur, acq, G, dclk, live, err, loc>>
\* deref: non-atomic read of data
Use == /\ pc[R] = "use"
       /\ err' = IF ~live[loc[R].p] THEN "uaf-deref"
                 ELSE IF cur[R][D(loc[R].p)] < dclk[loc[R].p] THEN "race-read-init" ELSE err
       /\ loc' = [loc EXCEPT ![R].ep = @ + 1, ![R].pinc = dclk[loc[R].p]]
       /\ cur' = [cur EXCEPT ![R]["er"] = loc[R].ep + 1]
       /\ Goto(R, "drop") /\ UNCHANGED <<mem, acq, G, dclk, live>>
Drop == /\ pc[R] = "drop"
        /\ IF loc[R].debt THEN CasSlot(R, loc[R].p, NONE, OrdPayOk, OrdPayFail, "done", "rdec")
           ELSE Goto(R, "rdec") /\ UNCHANGED <<mem, cur, acq, G>>
        /\ UNCHANGED <<dclk, live, err, loc>>
RDec == /\ pc[R] = "rdec" /\ DecStep(R, loc[R].p, "done")
\* ---- writer: store(new) = swap, pay_all, drop old
W0 == /\ pc[W] = "start" /\ loc[W].n < NSwaps
      /\ \E a \in Addrs : ~live[a] /\
           /\ live' = [live EXCEPT ![a] = TRUE] /\ dclk' = [dclk EXCEPT ![a] = @ + 1]
           /\ cur' = [cur EXCEPT ![W][D(a)] = dclk[a] + 1]
           /\ mem' = [mem EXCEPT ![Rc(a)] = Append(@, [val |-> 1, view |-> ZeroV, sc |-> FALSE])]
           /\ loc' = [loc EXCEPT ![W].p = a, ![W].n = @ + 1]
      /\ Goto(W, "W1") /\ UNCHANGED <<acq, G, err>>
W1 == /\ pc[W] = "W1" /\ LET e == RmwEff(W, "st", loc[W].p, OrdStSwap) IN
          Apply(W, e) /\ loc' = [loc EXCEPT ![W].old = e.val]
      /\ Goto(W, "W2") /\ UNCHANGED <<dclk, live, err>>
W2 == /\ pc[W] = "W2" /\ IncStep(W, loc[W].old, "W3")
\* debt/mod.rs pay_all: the writer's check of the slot (own orderings since fix F8)
W3 == /\ pc[W] = "W3" /\ CasSlot(W, loc[W].old, NONE, OrdPayOkW, OrdPayFailW, "W4", "W5")
      /\ UNCHANGED <<dclk, live, err, loc>>
W4 == /\ pc[W] = "W4" /\ IncStep(W, loc[W].old, "W5")
W5 == /\ pc[W] = "W5" /\ DecStep(W, loc[W].old, "W6")
W6 == /\ pc[W] = "W6" /\ DecStep(W, loc[W].old, "start")
Next == R1 \/ R2 \/ R3 \/ R4 \/ UseOwned \/ Use \/ Drop \/ RDec \/ W0 \/ W1 \/ W2 \/ W3 \/ W4 \/ W5 \/ W6
Spec == Init /\ [][Next]_vars
Safe == err = "ok"
\* checked separately, so that a use after free found first does not hide a race (and vice versa)
SafeUaf == err \notin {"uaf-inc", "uaf-dec", "uaf-deref", "debt-overwritten"}
SafeRace == err \notin {"race-read-init", "race-destroy-init", "race-destroy-read"}
====

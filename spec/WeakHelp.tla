---- MODULE WeakHelp ----
(***************************************************************************)
(* Weak-memory model of the FALLBACK read path (generation, candidate, helping *)
(* slot, confirm) versus a writer that helps (envelope hand-over).  View-based semantics (DESIGN     *)
(* section 4): per-location message lists, per-thread views, release /     *)
(* acquire, a global SeqCst view that carries only atomic coordinates,     *)
(* stale reads allowed, failing CAS = load with the failure ordering.      *)
(* The ordering of every access is a CONSTANT: tools/props.py feeds the    *)
(* table EXTRACTED FROM THE REAL CODE (Trace_Mem) into these constants.    *)
(* err = "ok" | uaf-* | race-* (first problem found).                      *)
(***************************************************************************)
EXTENDS Naturals, FiniteSets, Sequences, TLC
CONSTANTS StrictSC, NSwaps, OrdCand, OrdCtrl, OrdHslot, OrdEnv, OrdStSwap, OrdPayOk, OrdPayFail, OrdPayOkW, OrdPayFailW, OrdHelpLoad
R == "r"  W == "w"
Threads == {R, W}
Addrs == {1, 2}
NONE == 0
ALocs == {"st", "sl", "ctrl", "env1", "env2", "spr", "spw", "rc1", "rc2"}           \* atomic locations
NLocs == {"d1", "d2", "er"}                    \* non-atomic clocks: data init/destroy clock per addr, reader epoch
Locs == ALocs \cup NLocs
ZeroV == [l \in Locs |-> 0]
Join(a, b) == [l \in Locs |-> IF a[l] >= b[l] THEN a[l] ELSE b[l]]
AtomOnly(v) == [l \in Locs |-> IF l \in ALocs THEN v[l] ELSE 0]
Rc(a) == IF a = 1 THEN "rc1" ELSE "rc2"
D(a) == IF a = 1 THEN "d1" ELSE "d2"
IsAcq(o) == o \in {"acq", "acqrel", "sc"}
IsRel(o) == o \in {"rel", "acqrel", "sc"}
VARIABLES mem,    \* [ALocs -> Seq([val, view, sc])]
          cur, acq, \* thread views
          G,      \* global SC view
          dclk,   \* [Addrs -> Nat] current incarnation clock of data
          live,   \* [Addrs -> BOOLEAN]
          pc, loc, err
vars == <<mem, cur, acq, G, dclk, live, pc, loc, err>>

Last(x) == mem[x][Len(mem[x])]
\* --- generic effects, computed as records [mem, cur, acq, G, val]
\* StrictSC = FALSE: "SeqCst synchronises the time lines" (what the crate's comments assume and every mainstream
\* hardware mapping provides): a SeqCst access sees, for EVERY atomic location, at least what any earlier SeqCst
\* access had seen.  StrictSC = TRUE: ISO C++20 / Rust: the SeqCst order only constrains SeqCst accesses to the
\* SAME location (a SeqCst load reads the last SeqCst write to that location or a later one); a non-SeqCst load
\* that follows a SeqCst read-modify-write of ANOTHER location may still be stale.
PreSC(t, o) == IF o = "sc" /\ ~StrictSC THEN Join(cur[t], G) ELSE cur[t]
\* load of message i of x by t with order o
LoadEff(t, x, i, o) ==
  LET c0 == PreSC(t, o)
      m == mem[x][i]
      c1 == [c0 EXCEPT ![x] = i]
      c2 == IF IsAcq(o) THEN Join(c1, m.view) ELSE c1
      a2 == Join(Join(acq[t], m.view), c2)
  IN [cur |-> c2, acq |-> a2, G |-> IF o = "sc" THEN Join(G, AtomOnly(c2)) ELSE G, val |-> m.val]
\* readable indices
Readable(t, x, o) ==
  LET c0 == PreSC(t, o)
      lo1 == c0[x]
      scs == {j \in 1..Len(mem[x]) : mem[x][j].sc}
      lastsc == IF scs = {} THEN 1 ELSE CHOOSE j \in scs : \A k \in scs : k <= j
      lo == IF o = "sc" /\ lastsc > lo1 THEN lastsc ELSE lo1
  IN {i \in 1..Len(mem[x]) : i >= lo /\ i >= 1}
\* write (store or rmw-write part) appended; view released
WriteEff(t, x, v, o, c0, rdview) ==
  LET i == Len(mem[x]) + 1
      c1 == [c0 EXCEPT ![x] = i]
      mv == IF IsRel(o) THEN Join(c1, rdview) ELSE Join([ZeroV EXCEPT ![x] = i], rdview)
  IN [mem |-> [mem EXCEPT ![x] = Append(@, [val |-> v, view |-> mv, sc |-> (o = "sc")])],
      cur |-> c1, G |-> IF o = "sc" THEN Join(G, AtomOnly(c1)) ELSE G]
\* RMW: reads last, writes new
RmwEff(t, x, v, o) ==
  LET i == Len(mem[x])
      le == LoadEff(t, x, i, o)
      we == WriteEff(t, x, v, o, le.cur, mem[x][i].view)
  IN [mem |-> we.mem, cur |-> we.cur, acq |-> Join(le.acq, we.cur), G |-> Join(le.G, we.G), val |-> le.val]


IDLE == 0  GEN == 10  REPL(e) == 20 + e
EnvLoc(e) == IF e = 1 THEN "env1" ELSE "env2"
InitView == [l \in Locs |-> IF l \in ALocs \/ l = "d1" THEN 1 ELSE 0]
Init ==
  /\ mem = [x \in ALocs |-> << [val |-> (CASE x = "st" -> 1 [] x = "rc1" -> 1 [] x = "spr" -> 1 [] x = "spw" -> 2 [] OTHER -> 0),
                                 view |-> [ZeroV EXCEPT !["d1"] = 1], sc |-> TRUE] >>]
  /\ cur = [t \in Threads |-> InitView]
  /\ acq = cur
  /\ G = InitView
  /\ dclk = [a \in Addrs |-> IF a = 1 THEN 1 ELSE 0]
  /\ live = [a \in Addrs |-> a = 1]
  /\ pc = [t \in Threads |-> "start"]
  /\ loc = [t \in Threads |-> [p |-> 0, n |-> 0, old |-> 0, ep |-> 0, pinc |-> 0, cand |-> 0, c |-> 0, r |-> 0, ts |-> 0, e |-> 0]]
  /\ err = "ok"

Apply(t, e) == /\ mem' = e.mem /\ cur' = [cur EXCEPT ![t] = e.cur] /\ acq' = [acq EXCEPT ![t] = e.acq] /\ G' = e.G
ApplyL(t, e) == /\ cur' = [cur EXCEPT ![t] = e.cur] /\ acq' = [acq EXCEPT ![t] = e.acq] /\ G' = e.G /\ UNCHANGED mem
Goto(t, l) == pc' = [pc EXCEPT ![t] = l]
StoreEff(t, x, v, o) == LET c0 == PreSC(t, o) we == WriteEff(t, x, v, o, c0, ZeroV) IN
   [mem |-> we.mem, cur |-> we.cur, acq |-> Join(acq[t], we.cur), G |-> we.G]

IncStep(t, a, next) ==
  LET e == RmwEff(t, Rc(a), Last(Rc(a)).val + 1, "rlx") IN
  /\ Apply(t, e) /\ Goto(t, next)
  /\ err' = IF ~live[a] THEN "uaf-inc" ELSE err
  /\ UNCHANGED <<dclk, live, loc>>
DecStep(t, a, next) ==
  LET old == Last(Rc(a)).val
      e == RmwEff(t, Rc(a), IF old = 0 THEN 0 ELSE old - 1, "rel")
      cfin == Join(e.cur, e.acq)
  IN /\ Goto(t, next)
     /\ IF ~live[a] \/ old = 0 THEN /\ err' = "uaf-dec" /\ Apply(t, e) /\ UNCHANGED <<dclk, live>>
        ELSE IF old = 1 THEN
             /\ mem' = e.mem /\ G' = e.G /\ acq' = [acq EXCEPT ![t] = e.acq]
             /\ live' = [live EXCEPT ![a] = FALSE]
             /\ dclk' = [dclk EXCEPT ![a] = @ + 1]
             /\ cur' = [cur EXCEPT ![t] = [cfin EXCEPT ![D(a)] = dclk[a] + 1]]
             /\ err' = IF cfin[D(a)] < dclk[a] THEN "race-destroy-init"
                       ELSE IF loc[R].ep > cfin["er"] /\ loc[R].p = a /\ loc[R].pinc = dclk[a] /\ t # R THEN "race-destroy-read" ELSE err
        ELSE /\ Apply(t, e) /\ UNCHANGED <<dclk, live, err>>
     /\ UNCHANGED loc
\* generic CAS on location x
Cas(t, x, exp, new, ook, ofail, lok, lfail, field) ==
  \/ /\ Last(x).val = exp /\ LET e == RmwEff(t, x, new, ook) IN Apply(t, e) /\ Goto(t, lok) /\ UNCHANGED loc
  \/ \E i \in Readable(t, x, ofail) : /\ mem[x][i].val # exp
        /\ LET e == LoadEff(t, x, i, ofail) IN ApplyL(t, e) /\ Goto(t, lfail)
             /\ (IF field = "" THEN UNCHANGED loc ELSE loc' = [loc EXCEPT ![t][field] = e.val])
LoadTo(t, x, o, field, next) ==
  \E i \in Readable(t, x, o) : LET e == LoadEff(t, x, i, o) IN
      ApplyL(t, e) /\ loc' = [loc EXCEPT ![t][field] = e.val] /\ Goto(t, next)

\* ---- reader: fallback only
F2 == /\ pc[R] = "start" /\ LET e == RmwEff(R, "ctrl", GEN, OrdCtrl) IN Apply(R, e)
      /\ Goto(R, "F3") /\ UNCHANGED <<dclk, live, err, loc>>
F3 == /\ pc[R] = "F3" /\ LoadTo(R, "st", OrdCand, "cand", "F4") /\ UNCHANGED <<dclk, live, err>>
F4 == /\ pc[R] = "F4" /\ LET e == RmwEff(R, "sl", loc[R].cand, OrdHslot) IN Apply(R, e)
      /\ Goto(R, "F5") /\ UNCHANGED <<dclk, live, err, loc>>
F5 == /\ pc[R] = "F5" /\ LET e == RmwEff(R, "ctrl", IDLE, OrdCtrl) IN
         /\ Apply(R, e)
         /\ IF e.val = GEN THEN Goto(R, "F6") /\ loc' = [loc EXCEPT ![R].p = loc[R].cand]
            ELSE Goto(R, "F8") /\ loc' = [loc EXCEPT ![R].e = e.val - 20]
      /\ UNCHANGED <<dclk, live, err>>
F6 == /\ pc[R] = "F6" /\ IncStep(R, loc[R].cand, "F7")
F7 == /\ pc[R] = "F7" /\ Cas(R, "sl", loc[R].cand, 0, OrdPayOk, OrdPayFail, "use", "F7b", "") /\ UNCHANGED <<dclk, live, err>>
F7b == /\ pc[R] = "F7b" /\ DecStep(R, loc[R].cand, "use")
F8 == /\ pc[R] = "F8" /\ LoadTo(R, EnvLoc(loc[R].e), OrdEnv, "p", "F8s") /\ UNCHANGED <<dclk, live, err>>
F8s == /\ pc[R] = "F8s" /\ LET e == StoreEff(R, "spr", loc[R].e, OrdEnv) IN Apply(R, e)
       /\ Goto(R, "F9") /\ UNCHANGED <<dclk, live, err, loc>>
F9 == /\ pc[R] = "F9" /\ Cas(R, "sl", loc[R].cand, 0, OrdPayOk, OrdPayFail, "use", "F9b", "") /\ UNCHANGED <<dclk, live, err>>
F9b == /\ pc[R] = "F9b" /\ DecStep(R, loc[R].cand, "use")
Use == /\ pc[R] = "use"
       /\ err' = IF ~live[loc[R].p] THEN "uaf-deref"
                 ELSE IF cur[R][D(loc[R].p)] < dclk[loc[R].p] THEN "race-read-init" ELSE err
       /\ loc' = [loc EXCEPT ![R].ep = @ + 1, ![R].pinc = dclk[loc[R].p]]
       /\ cur' = [cur EXCEPT ![R]["er"] = loc[R].ep + 1]
       /\ Goto(R, "rdec") /\ UNCHANGED <<mem, acq, G, dclk, live>>
RDec == /\ pc[R] = "rdec" /\ DecStep(R, loc[R].p, "done")
\* ---- writer
W0 == /\ pc[W] = "start" /\ loc[W].n < NSwaps
      /\ \E a \in Addrs : ~live[a] /\
           /\ live' = [live EXCEPT ![a] = TRUE] /\ dclk' = [dclk EXCEPT ![a] = @ + 1]
           /\ cur' = [cur EXCEPT ![W][D(a)] = dclk[a] + 1]
           /\ mem' = [mem EXCEPT ![Rc(a)] = Append(@, [val |-> 1, view |-> ZeroV, sc |-> FALSE])]
           /\ loc' = [loc EXCEPT ![W].p = a, ![W].n = @ + 1]
      /\ Goto(W, "W1") /\ UNCHANGED <<acq, G, err>>
W1 == /\ pc[W] = "W1" /\ LET e == RmwEff(W, "st", loc[W].p, OrdStSwap) IN
          Apply(W, e) /\ loc' = [loc EXCEPT ![W].old = e.val]
      /\ Goto(W, "W2") /\ UNCHANGED <<dclk, live, err>>
W2 == /\ pc[W] = "W2" /\ IncStep(W, loc[W].old, "H1")
H1 == /\ pc[W] = "H1" /\ LoadTo(W, "ctrl", OrdHelpLoad, "c", "H1b") /\ UNCHANGED <<dclk, live, err>>
H1b == /\ pc[W] = "H1b" /\ Goto(W, IF loc[W].c = GEN THEN "H4" ELSE "P") /\ UNCHANGED <<mem, cur, acq, G, dclk, live, err, loc>>
\* nested load by the only writer: reads own latest store, bumps it
H4 == /\ pc[W] = "H4" /\ LoadTo(W, "st", "acq", "r", "H4i") /\ UNCHANGED <<dclk, live, err>>
H4i == /\ pc[W] = "H4i" /\ IncStep(W, loc[W].r, "H5")
H5 == /\ pc[W] = "H5" /\ LoadTo(W, "spr", OrdHelpLoad, "ts", "H6") /\ UNCHANGED <<dclk, live, err>>
H6 == /\ pc[W] = "H6" /\ LoadTo(W, "spw", OrdHelpLoad, "e", "H7") /\ UNCHANGED <<dclk, live, err>>
H7 == /\ pc[W] = "H7" /\ LET e == StoreEff(W, EnvLoc(loc[W].e), loc[W].r, OrdEnv) IN Apply(W, e)
      /\ Goto(W, "H8") /\ UNCHANGED <<dclk, live, err, loc>>
H8 == /\ pc[W] = "H8" /\ Cas(W, "ctrl", loc[W].c, REPL(loc[W].e), OrdCtrl, OrdCtrl, "H9", "H8f", "c") /\ UNCHANGED <<dclk, live, err>>
H8f == /\ pc[W] = "H8f" /\ DecStep(W, loc[W].r, "H1b")
H9 == /\ pc[W] = "H9" /\ LET e == StoreEff(W, "spw", loc[W].ts, OrdEnv) IN Apply(W, e)
      /\ Goto(W, "P") /\ UNCHANGED <<dclk, live, err, loc>>
P == /\ pc[W] = "P" /\ Cas(W, "sl", loc[W].old, 0, OrdPayOkW, OrdPayFailW, "P2", "W5", "") /\ UNCHANGED <<dclk, live, err>>
P2 == /\ pc[W] = "P2" /\ IncStep(W, loc[W].old, "W5")
W5 == /\ pc[W] = "W5" /\ DecStep(W, loc[W].old, "W6")
W6 == /\ pc[W] = "W6" /\ DecStep(W, loc[W].old, "start")
Next == F2 \/ F3 \/ F4 \/ F5 \/ F6 \/ F7 \/ F7b \/ F8 \/ F8s \/ F9 \/ F9b \/ Use \/ RDec
        \/ W0 \/ W1 \/ W2 \/ H1 \/ H1b \/ H4 \/ H4i \/ H5 \/ H6 \/ H7 \/ H8 \/ H8f \/ H9 \/ P \/ P2 \/ W5 \/ W6
Spec == Init /\ [][Next]_vars
Safe == err = "ok"
\* checked separately, so that a use after free found first does not hide a race (and vice versa)
SafeUaf == err \notin {"uaf-inc", "uaf-dec", "uaf-deref", "debt-overwritten"}
SafeRace == err \notin {"race-read-init", "race-destroy-init", "race-destroy-read"}
====

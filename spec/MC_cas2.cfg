SPECIFICATION Spec
CONSTANTS
  Prog <- P_cas2
  Threads = {1, 2}
  Conts = {1}
  NF = 1
  GenMod = 4
  NAddr = 4
  MaxNodes = 3
  MaxObj = 4
  WrapMode = "fixed"
  MaxSpur = 1
  SoloOn = FALSE
  Bug = ""
  Hist = "off"
  UseFast = TRUE
INVARIANTS Refines HeldLive StoredLive NodeExclusive NodeUsedOwned Ledger EnvelopeLinear LoadSteps NodeBound TypeOK
CHECK_DEADLOCK FALSE

#!/bin/sh
# Builds the harness offline from /repo's current tree and parses the specs.
set -e
cd "$(dirname "$0")"
exec ./check --setup

//! asv — verification harness for arc-swap (executes programs under controlled schedules on the
//! real crate and logs NDJSON traces for TLC trace validation).

mod driver;
mod roles;
mod sched;
mod strategies;
mod vptr;
mod seq;
mod serde_check;
mod cache_views;
mod traits;

use std::io::{BufRead, BufWriter, Write};
use std::sync::mpsc;
use std::sync::{Arc, Mutex};

use arc_swap::strategy::{CaS, Strategy};
use serde_json::{json, Value};

use driver::{Ctx, CurForms, Op, Program, World, T};

pub struct ExecResult {
    pub info: Value,
    pub events: Vec<Value>,
    pub schedule: Vec<Value>,
    pub overrun: bool,
}

struct Watchers {
    txs: Vec<mpsc::Sender<(usize, std::thread::JoinHandle<()>)>>,
}

static WATCHERS: Mutex<Option<Watchers>> = Mutex::new(None);

fn watcher_send(i: usize, h: std::thread::JoinHandle<()>) {
    let mut g = WATCHERS.lock().unwrap();
    if g.is_none() {
        *g = Some(Watchers { txs: Vec::new() });
    }
    let w = g.as_mut().unwrap();
    while w.txs.len() <= i {
        let (tx, rx) = mpsc::channel::<(usize, std::thread::JoinHandle<()>)>();
        std::thread::spawn(move || {
            for (id, h) in rx {
                let _ = h.join();
                sched::thread_gone(id);
            }
        });
        w.txs.push(tx);
    }
    w.txs[i].send((i, h)).unwrap();
}

pub fn execute<S>(prog: &Program, strat: Box<dyn sched::Strategy>, atomics: bool, stale: &[(usize, usize)]) -> ExecResult
where
    S: Strategy<T> + CaS<T> + CurForms + Default + Send + Sync + 'static,
    S::Protected: Send,
{
    let reuse = match prog.reuse.as_str() {
        "lifo" => vptr::Reuse::Lifo,
        "fifo" => vptr::Reuse::Fifo,
        _ => vptr::Reuse::Never,
    };
    vptr::reset(reuse);
    arc_swap::verif::reset_list();
    let n = prog.threads.len();
    driver::arena_reset();
    sched::begin_execution(n + 1, strat, atomics);
    // the lock-based strategy blocks in the kernel: a thread parked by the scheduler may hold the lock another one wants
    let steal = prog.strategy == "rwlock";
    sched::with(|g| g.steal_stalled = steal);
    sched::with(|g| {
        g.step_limit = if prog.step_limit > 0 { prog.step_limit } else { 60_000 };
        g.stale.clear();
        for (k, v) in stale {
            g.stale.insert(*k, *v);
        }
    });
    let world: Arc<Mutex<World<S>>> = Arc::new(Mutex::new(World::new()));
    for (i, ops) in prog.threads.iter().enumerate() {
        let ctx = Ctx { w: world.clone() };
        let ops = ops.clone();
        let h = std::thread::Builder::new()
            .stack_size(256 * 1024)
            .spawn(move || {
                sched::thread_begin(i);
                sched::log(json!({"e": "tstart", "t": i as i64}));
                for op in ops.iter() {
                    driver::run_op(&ctx, op);
                }
                sched::exit_begin();
                sched::log(json!({"e": "texit", "t": i as i64}));
            })
            .unwrap();
        watcher_send(i, h);
    }
    {
        let ctx = Ctx { w: world.clone() };
        let h = std::thread::Builder::new()
            .stack_size(256 * 1024)
            .spawn(move || {
                sched::thread_begin(n);
                sched::log(json!({"e": "tstart", "t": n as i64}));
                for t in 0..n {
                    driver::run_op(&ctx, &Op::Wait { t });
                }
                driver::finalize(&ctx);
                sched::exit_begin();
                sched::log(json!({"e": "texit", "t": n as i64}));
            })
            .unwrap();
        watcher_send(n, h);
    }
    drop(world);
    sched::kick_off();
    sched::wait_all_gone();
    // final quiescent snapshot (after every thread-local destructor has run)
    let (mut events, schedule, overrun, info) = sched::with(|g| {
        (
            std::mem::take(&mut g.events),
            std::mem::take(&mut g.schedule),
            g.overrun,
            g.strategy.as_ref().map(|s| s.summary()).unwrap_or(json!({"segments": 0, "reached": 0, "missed": 0, "first_missed": -1, "solo_max": 0})),
        )
    });
    {
        // log the final state through the same code path
        sched::with(|g| g.active = true);
        driver::quiescent();
        sched::with(|g| {
            events.append(&mut g.events);
            g.active = false;
        });
    }
    ExecResult {
        info,
        events,
        schedule,
        overrun,
    }
}

fn run_one(job: &Value, atomics: bool) -> ExecResult {
    let prog: Program = serde_json::from_value(job["prog"].clone()).expect("program");
    let strat = strategies::from_json(&job["sched"], prog.threads.len() + 1);
    let stale: Vec<(usize, usize)> = job
        .get("stale")
        .and_then(|s| s.as_array())
        .map(|a| {
            a.iter()
                .map(|p| (p[0].as_u64().unwrap() as usize, p[1].as_u64().unwrap() as usize))
                .collect()
        })
        .unwrap_or_default();
    #[allow(deprecated)]
    match prog.strategy.as_str() {
        "nofast" => execute::<arc_swap::strategy::test_strategies::FillFastSlots>(&prog, strat, atomics, &stale),
        "rwlock" => execute::<std::sync::RwLock<()>>(&prog, strat, atomics, &stale),
        _ => execute::<arc_swap::DefaultStrategy>(&prog, strat, atomics, &stale),
    }
}

static OUT_FD: std::sync::atomic::AtomicI32 = std::sync::atomic::AtomicI32::new(-1);

/// The code under test aborted the process (e.g. a panic inside a thread-local destructor): write the events of the
/// execution in flight straight to the trace file, so that the prefix can still be validated, then exit.
extern "C" fn on_abort(_sig: libc::c_int) {
    let fd = OUT_FD.load(std::sync::atomic::Ordering::SeqCst);
    if fd >= 0 {
        if let Some(events) = sched::try_events() {
            let mut buf = String::new();
            for ev in events.iter() {
                buf.push_str(&ev.to_string());
                buf.push('\n');
            }
            unsafe {
                libc::write(fd, buf.as_ptr() as *const libc::c_void, buf.len());
            }
        }
    }
    unsafe { libc::_exit(134) }
}

fn cmd_run(args: &[String]) {
    let mut inp = None;
    let mut out = None;
    let mut atomics = true;
    let mut i = 0;
    while i < args.len() {
        match args[i].as_str() {
            "--in" => {
                inp = Some(args[i + 1].clone());
                i += 1;
            }
            "--out" => {
                out = Some(args[i + 1].clone());
                i += 1;
            }
            "--atomics" => {
                atomics = args[i + 1] != "st";
                i += 1;
            }
            _ => {}
        }
        i += 1;
    }
    let inp = inp.expect("--in");
    let out = out.expect("--out");
    arc_swap::verif::set_hook(Some(&sched::HOOK));
    sched::start_watchdog(20);
    // quiet panics of the code under test: they are data
    std::panic::set_hook(Box::new(|info| {
        if sched::tid() == usize::MAX {
            eprintln!("asv: harness panic: {}", info);
        }
    }));
    let rd = std::io::BufReader::new(std::fs::File::open(&inp).expect("open in"));
    let out_file = std::fs::File::create(&out).expect("create out");
    {
        use std::os::fd::AsRawFd;
        OUT_FD.store(out_file.as_raw_fd(), std::sync::atomic::Ordering::SeqCst);
        unsafe {
            libc::signal(libc::SIGABRT, on_abort as usize);
        }
    }
    let mut wr = BufWriter::new(out_file);
    let mut swr = BufWriter::new(std::fs::File::create(format!("{}.sched", out)).expect("create sched out"));
    let mut seqno: i64 = 0;
    for line in rd.lines() {
        let line = line.unwrap();
        if line.trim().is_empty() {
            continue;
        }
        let job: Value = serde_json::from_str(&line).expect("job json");
        // the begin line is flushed first so that an abort can be attributed
        writeln!(wr, "{}", json!({"e": "begin", "id": job["id"], "x": seqno})).unwrap();
        wr.flush().unwrap();
        let res = run_one(&job, atomics);
        for ev in res.events.iter() {
            writeln!(wr, "{}", ev).unwrap();
        }
        writeln!(wr, "{}", json!({"e": "end", "id": job["id"], "x": seqno, "overrun": res.overrun, "info": res.info})).unwrap();
        writeln!(swr, "{}", json!({"id": job["id"], "x": seqno, "sched": res.schedule})).unwrap();
        seqno += 1;
    }
    wr.flush().unwrap();
    swr.flush().unwrap();
}

fn main() {
    let args: Vec<String> = std::env::args().collect();
    if args.len() < 2 {
        eprintln!("usage: asv run --in jobs.ndjson --out trace.ndjson [--atomics st|all] | asv seq ...");
        std::process::exit(2);
    }
    match args[1].as_str() {
        "run" => cmd_run(&args[2..]),
        "seq" => seq::main(&args[2..]),
        _ => {
            eprintln!("unknown command");
            std::process::exit(2);
        }
    }
}

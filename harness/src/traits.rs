//! C19: the auto-trait table of the crate's public generic types, decided by rustc (inherent-const-vs-trait-const probe),
//! to be compared with the table predicted by spec/AutoTraits.tla.

use std::cell::Cell;
use std::marker::PhantomData;
use std::rc::Rc;
use std::sync::{Arc, RwLock, Weak};

use arc_swap::access::{Constant, DynGuard, Map};
use arc_swap::cache::{Cache, MapCache};
use arc_swap::{ArcSwapAny, DefaultStrategy, Guard};
use serde_json::{json, Value};

struct Probe<T: ?Sized>(PhantomData<T>);
trait NotSend {
    const IS_SEND: bool = false;
}
impl<T: ?Sized> NotSend for Probe<T> {}
impl<T: ?Sized + Send> Probe<T> {
    const IS_SEND: bool = true;
}
trait NotSync {
    const IS_SYNC: bool = false;
}
impl<T: ?Sized> NotSync for Probe<T> {}
impl<T: ?Sized + Sync> Probe<T> {
    const IS_SYNC: bool = true;
}

// pointee classes
#[allow(dead_code)]
pub struct Both(u8);
#[allow(dead_code)]
pub struct SendOnly(Cell<u8>);
#[allow(dead_code)]
pub struct SyncOnly(PhantomData<*const ()>);
unsafe impl Sync for SyncOnly {}
#[allow(dead_code)]
pub struct Neither(PhantomData<*const ()>);

macro_rules! row {
    ($rows:ident, $w:expr, $p:expr, $u:expr, $s:expr, $ty:ty) => {
        $rows.push(json!({"wrapper": $w, "ptr": $p, "pointee": $u, "strategy": $s,
                          "send": <Probe<$ty>>::IS_SEND, "sync": <Probe<$ty>>::IS_SYNC}));
    };
}

macro_rules! for_ptr {
    ($rows:ident, $p:expr, $u:expr, $P:ty) => {
        row!($rows, "ptr", $p, $u, "-", $P);
        row!($rows, "ArcSwapAny", $p, $u, "default", ArcSwapAny<$P, DefaultStrategy>);
        row!($rows, "ArcSwapAny", $p, $u, "rwlock", ArcSwapAny<$P, RwLock<()>>);
        row!($rows, "Guard", $p, $u, "default", Guard<$P, DefaultStrategy>);
        row!($rows, "Guard", $p, $u, "rwlock", Guard<$P, RwLock<()>>);
        row!($rows, "Cache<Arc>", $p, $u, "default", Cache<Arc<ArcSwapAny<$P, DefaultStrategy>>, $P>);
        row!($rows, "Cache<&>", $p, $u, "default", Cache<&'static ArcSwapAny<$P, DefaultStrategy>, $P>);
        row!($rows, "Map<Arc>", $p, $u, "default", Map<Arc<ArcSwapAny<$P, DefaultStrategy>>, $P, fn(&$P) -> &$P>);
        row!($rows, "MapGuard", $p, $u, "default", <Map<Arc<ArcSwapAny<$P, DefaultStrategy>>, $P, fn(&$P) -> &$P> as arc_swap::access::Access<$P>>::Guard);
        row!($rows, "Cache<Rc>", $p, $u, "default", Cache<Rc<ArcSwapAny<$P, DefaultStrategy>>, $P>);
        row!($rows, "Cache<Box>", $p, $u, "default", Cache<Box<ArcSwapAny<$P, DefaultStrategy>>, $P>);
        row!($rows, "Map<Rc>", $p, $u, "default", Map<Rc<ArcSwapAny<$P, DefaultStrategy>>, $P, fn(&$P) -> &$P>);
        row!($rows, "MapCache<Arc>", $p, $u, "default", MapCache<Arc<ArcSwapAny<$P, DefaultStrategy>>, $P, fn(&$P) -> &$P>);
        row!($rows, "MapCache<Rc>", $p, $u, "default", MapCache<Rc<ArcSwapAny<$P, DefaultStrategy>>, $P, fn(&$P) -> &$P>);
        row!($rows, "Map<Arc>/F=local", $p, $u, "default", Map<Arc<ArcSwapAny<$P, DefaultStrategy>>, $P, &'static dyn for<'a> Fn(&'a $P) -> &'a $P>);
        row!($rows, "Map<Arc>/F=shared", $p, $u, "default", Map<Arc<ArcSwapAny<$P, DefaultStrategy>>, $P, &'static (dyn for<'a> Fn(&'a $P) -> &'a $P + Sync)>);
        row!($rows, "MapGuard/F=local", $p, $u, "default", <Map<Arc<ArcSwapAny<$P, DefaultStrategy>>, $P, &'static dyn for<'a> Fn(&'a $P) -> &'a $P> as arc_swap::access::Access<$P>>::Guard);
        row!($rows, "MapGuard/F=shared", $p, $u, "default", <Map<Arc<ArcSwapAny<$P, DefaultStrategy>>, $P, &'static (dyn for<'a> Fn(&'a $P) -> &'a $P + Sync)> as arc_swap::access::Access<$P>>::Guard);
        row!($rows, "MapCache<Arc>/F=local", $p, $u, "default", MapCache<Arc<ArcSwapAny<$P, DefaultStrategy>>, $P, &'static dyn for<'a> Fn(&'a $P) -> &'a $P>);
        row!($rows, "MapCache<Arc>/F=shared", $p, $u, "default", MapCache<Arc<ArcSwapAny<$P, DefaultStrategy>>, $P, &'static (dyn for<'a> Fn(&'a $P) -> &'a $P + Sync)>);
        row!($rows, "DynGuard", $p, $u, "-", DynGuard<$P>);
        row!($rows, "Constant", $p, $u, "-", Constant<$P>);
    };
}

macro_rules! for_pointee {
    ($rows:ident, $u:expr, $U:ty) => {
        for_ptr!($rows, "Arc", $u, Arc<$U>);
        for_ptr!($rows, "OptionArc", $u, Option<Arc<$U>>);
        for_ptr!($rows, "Rc", $u, Rc<$U>);
        for_ptr!($rows, "OptionRc", $u, Option<Rc<$U>>);
        for_ptr!($rows, "Weak", $u, Weak<$U>);
    };
}

pub fn table() -> Value {
    let mut rows: Vec<Value> = Vec::new();
    for_pointee!(rows, "both", Both);
    for_pointee!(rows, "send_only", SendOnly);
    for_pointee!(rows, "sync_only", SyncOnly);
    for_pointee!(rows, "neither", Neither);
    json!({ "rows": rows })
}

//! `VPtr`: an instrumented reference-counted pointer (`unsafe impl RefCnt`).
//!
//! Objects live in an arena whose memory is never given back to the allocator, so a use after
//! "destruction" is observable and harmless. Destroyed addresses are reused on demand (ABA).
//! Every count operation is a scheduling point and is logged.

use std::collections::HashMap;
use std::sync::atomic::{AtomicU32, AtomicUsize, Ordering::Relaxed};
use std::sync::Mutex;

use arc_swap::RefCnt;
use serde_json::json;

use crate::sched;

#[repr(C, align(16))]
pub struct Obj {
    cnt: AtomicUsize,
    /// object id (unique per allocation within an execution)
    id: AtomicU32,
    /// 1 = alive, 0 = destroyed
    alive: AtomicU32,
    /// id of the object this one was derived from by an rcu closure (0 = none)
    parent: std::sync::atomic::AtomicI64,
    /// 1 = the destructor panics
    pdrop: AtomicU32,
    /// a nested field, for projections: always equal to id
    pub inner: Inner,
}

pub struct Inner {
    pub tag: AtomicU32,
}

/// What a projection of the null value shows.
pub static NULL_INNER: Inner = Inner {
    tag: AtomicU32::new(0),
};

impl Obj {
    pub fn inner_ref(&self) -> &Inner {
        &self.inner
    }
    /// (id, alive) as the memory says
    pub fn peek(&self) -> (u32, bool) {
        (self.id.load(Relaxed), self.alive.load(Relaxed) == 1)
    }
}

/// A dummy object for projections of null.
pub static NULL_OBJ: Obj = Obj {
    cnt: AtomicUsize::new(0),
    id: AtomicU32::new(0),
    alive: AtomicU32::new(1),
    parent: std::sync::atomic::AtomicI64::new(-1),
    pdrop: AtomicU32::new(0),
    inner: Inner {
        tag: AtomicU32::new(0),
    },
};

#[derive(Clone, Copy, PartialEq, Eq, Debug)]
pub enum Reuse {
    Never,
    Lifo,
    Fifo,
}

struct Arena {
    slots: Vec<usize>, // address of Obj per slot
    by_addr: HashMap<usize, usize>,
    free: Vec<usize>,
    used: usize, // slots handed out so far in this execution (when not reusing)
    next_id: u32,
    reuse: Reuse,
}

static ARENA: Mutex<Option<Arena>> = Mutex::new(None);

fn arena<R>(f: impl FnOnce(&mut Arena) -> R) -> R {
    let mut g = match ARENA.lock() {
        Ok(g) => g,
        Err(p) => p.into_inner(),
    };
    if g.is_none() {
        *g = Some(Arena {
            slots: Vec::new(),
            by_addr: HashMap::new(),
            free: Vec::new(),
            used: 0,
            next_id: 1,
            reuse: Reuse::Never,
        });
    }
    f(g.as_mut().unwrap())
}

/// Start a new execution: all slots become free, ids restart.
pub fn reset(reuse: Reuse) {
    arena(|a| {
        a.free.clear();
        a.used = 0;
        a.next_id = 1;
        a.reuse = reuse;
        for addr in &a.slots {
            let o = unsafe { &*(*addr as *const Obj) };
            o.alive.store(0, Relaxed);
            o.cnt.store(0, Relaxed);
            o.id.store(0, Relaxed);
        }
    })
}

pub fn slot_of_addr(addr: usize) -> Option<usize> {
    arena(|a| a.by_addr.get(&addr).copied())
}

pub fn obj_of_addr(addr: usize) -> Option<u32> {
    arena(|a| {
        a.by_addr
            .get(&addr)
            .map(|_| unsafe { &*(addr as *const Obj) }.id.load(Relaxed))
    })
}

/// (object id, count, alive) of every slot handed out in this execution.
pub fn snapshot() -> Vec<(u32, usize, bool, usize)> {
    arena(|a| {
        let mut v = Vec::new();
        for (s, addr) in a.slots.iter().enumerate() {
            let o = unsafe { &*(*addr as *const Obj) };
            let id = o.id.load(Relaxed);
            if id != 0 {
                v.push((id, o.cnt.load(Relaxed), o.alive.load(Relaxed) == 1, s + 1));
            }
        }
        v
    })
}

pub struct VPtr(std::ptr::NonNull<Obj>);

unsafe impl Send for VPtr {}
unsafe impl Sync for VPtr {}

impl VPtr {
    pub fn alloc(parent: i64, pdrop: bool) -> VPtr {
        let (addr, slot, id) = arena(|a| {
            let slot = match a.reuse {
                Reuse::Never => None,
                Reuse::Lifo => a.free.pop(),
                Reuse::Fifo => {
                    if a.free.is_empty() {
                        None
                    } else {
                        Some(a.free.remove(0))
                    }
                }
            };
            let slot = match slot {
                Some(s) => s,
                None => {
                    let s = a.used;
                    a.used += 1;
                    if s >= a.slots.len() {
                        let b = Box::leak(Box::new(Obj {
                            cnt: AtomicUsize::new(0),
                            id: AtomicU32::new(0),
                            alive: AtomicU32::new(0),
                            parent: std::sync::atomic::AtomicI64::new(-1),
                            pdrop: AtomicU32::new(0),
                            inner: Inner {
                                tag: AtomicU32::new(0),
                            },
                        }));
                        let addr = b as *const Obj as usize;
                        a.slots.push(addr);
                        a.by_addr.insert(addr, s);
                    }
                    s
                }
            };
            let id = a.next_id;
            a.next_id += 1;
            (a.slots[slot], slot, id)
        });
        let o = unsafe { &*(addr as *const Obj) };
        o.cnt.store(1, Relaxed);
        o.id.store(id, Relaxed);
        o.alive.store(1, Relaxed);
        o.parent.store(parent, Relaxed);
        o.pdrop.store(pdrop as u32, Relaxed);
        o.inner.tag.store(id, Relaxed);
        sched::log(json!({"e": "alloc", "t": sched::tid() as i64, "o": id, "a": slot + 1, "p": parent}));
        VPtr(std::ptr::NonNull::new(addr as *mut Obj).unwrap())
    }

    fn obj(&self) -> &Obj {
        unsafe { self.0.as_ref() }
    }

    /// Dereference: what the memory says (id, alive, inner tag).
    pub fn read(&self) -> (u32, bool, u32) {
        let o = self.obj();
        (
            o.id.load(Relaxed),
            o.alive.load(Relaxed) == 1,
            o.inner.tag.load(Relaxed),
        )
    }

    pub fn obj_ref(&self) -> &Obj {
        self.obj()
    }

    pub fn inner(&self) -> &Inner {
        &self.obj().inner
    }

    pub fn id(&self) -> u32 {
        self.obj().id.load(Relaxed)
    }

    pub fn count(&self) -> usize {
        self.obj().cnt.load(Relaxed)
    }

    pub fn addr(&self) -> usize {
        self.0.as_ptr() as usize
    }
}

impl Clone for VPtr {
    fn clone(&self) -> Self {
        sched::yield_at(false, "inc");
        let o = self.obj();
        let alive = o.alive.load(Relaxed) == 1;
        let n = o.cnt.load(Relaxed) + 1;
        o.cnt.store(n, Relaxed);
        sched::log(json!({"e": "inc", "t": sched::tid() as i64, "o": o.id.load(Relaxed), "n": n, "dead": !alive}));
        VPtr(self.0)
    }
}

impl Drop for VPtr {
    fn drop(&mut self) {
        sched::yield_at(false, "dec");
        let o = self.obj();
        let alive = o.alive.load(Relaxed) == 1;
        let c = o.cnt.load(Relaxed);
        let id = o.id.load(Relaxed);
        if !alive || c == 0 {
            sched::log(json!({"e": "dec", "t": sched::tid() as i64, "o": id, "n": -1, "dead": true}));
            return;
        }
        o.cnt.store(c - 1, Relaxed);
        sched::log(json!({"e": "dec", "t": sched::tid() as i64, "o": id, "n": c - 1, "dead": false}));
        if c == 1 {
            o.alive.store(0, Relaxed);
            sched::log(json!({"e": "destroy", "t": sched::tid() as i64, "o": id}));
            let addr = self.0.as_ptr() as usize;
            arena(|a| {
                if let Some(s) = a.by_addr.get(&addr).copied() {
                    a.free.push(s);
                }
            });
            if o.pdrop.load(Relaxed) == 1 && !std::thread::panicking() {
                panic!("asv: user destructor panics (object {})", id);
            }
        }
    }
}

/// Serialising the pointer serialises the pointee: its identity, as the memory says at that moment (C20).
impl serde::Serialize for VPtr {
    fn serialize<S: serde::Serializer>(&self, serializer: S) -> Result<S::Ok, S::Error> {
        // user code runs here: other threads may be scheduled before the fields are read
        sched::yield_at(false, "ser");
        let (id, alive, tag) = self.read();
        sched::log(json!({"e": "deref", "t": sched::tid() as i64, "k": "s", "r": 0, "o": id, "alive": alive, "tag": tag}));
        serializer.serialize_u32(id)
    }
}

unsafe impl RefCnt for VPtr {
    type Base = Obj;
    fn into_ptr(me: Self) -> *mut Obj {
        let p = me.0.as_ptr();
        std::mem::forget(me);
        p
    }
    fn as_ptr(me: &Self) -> *mut Obj {
        me.0.as_ptr()
    }
    unsafe fn from_ptr(ptr: *const Obj) -> Self {
        VPtr(std::ptr::NonNull::new_unchecked(ptr as *mut Obj))
    }
}

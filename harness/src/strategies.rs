//! Scheduling strategies.

use rand::rngs::StdRng;
use rand::{Rng, SeedableRng};
use serde_json::Value;

use crate::sched::{Point, Strategy};

/// Uniform random: at every point switch with probability `p` to a random runnable thread.
pub struct Random {
    rng: StdRng,
    p: f64,
    spur: f64,
}

impl Strategy for Random {
    fn pick(&mut self, pt: &Point) -> usize {
        if pt.cur_runnable && !self.rng.gen_bool(self.p) {
            pt.cur
        } else {
            pt.runnable[self.rng.gen_range(0..pt.runnable.len())]
        }
    }
    fn spurious(&mut self, _p: &Point) -> bool {
        self.spur > 0.0 && self.rng.gen_bool(self.spur)
    }
}

/// PCT: random priorities, d-1 priority change points.
pub struct Pct {
    prio: Vec<i64>,
    change: Vec<usize>,
    low: i64,
    rng: StdRng,
    spur: f64,
}

impl Strategy for Pct {
    fn pick(&mut self, pt: &Point) -> usize {
        if self.change.contains(&pt.step) && pt.cur < self.prio.len() {
            self.low -= 1;
            self.prio[pt.cur] = self.low;
        }
        *pt.runnable
            .iter()
            .max_by_key(|t| self.prio[**t])
            .unwrap()
    }
    fn spurious(&mut self, _p: &Point) -> bool {
        self.spur > 0.0 && self.rng.gen_bool(self.spur)
    }
}

/// Replay of a recorded (or TLC-derived) schedule; falls back to "continue / first runnable".
pub struct Replay {
    seq: Vec<(usize, bool)>,
    i: usize,
    /// after the schedule is exhausted: run threads to completion in this order
    tail_rr: bool,
}

impl Strategy for Replay {
    fn pick(&mut self, pt: &Point) -> usize {
        // skip entries naming threads that cannot run now
        while self.i < self.seq.len() {
            let (t, _) = self.seq[self.i];
            if pt.runnable.contains(&t) {
                return t;
            }
            self.i += 1;
        }
        let _ = self.tail_rr;
        if pt.cur_runnable {
            pt.cur
        } else {
            pt.runnable[0]
        }
    }
    fn spurious(&mut self, _p: &Point) -> bool {
        false
    }
}

/// Wrapper that consumes one entry of the replay sequence per granted step.
pub struct ReplayExact {
    inner: Replay,
}

impl Strategy for ReplayExact {
    fn pick(&mut self, pt: &Point) -> usize {
        let t = self.inner.pick(pt);
        t
    }
    fn spurious(&mut self, _pt: &Point) -> bool {
        false
    }
}

/// Replay by *steps*: entry k names the thread that performs the k-th step. The strategy is
/// consulted at the beginning of every step (the current thread is about to perform one): the
/// thread named by the current entry goes next and the entry is consumed.
pub struct StepReplay {
    seq: Vec<(usize, bool)>,
    i: usize,
    spur_now: bool,
}

impl Strategy for StepReplay {
    fn pick(&mut self, pt: &Point) -> usize {
        self.spur_now = false;
        while self.i < self.seq.len() {
            let (t, f) = self.seq[self.i];
            self.i += 1;
            if pt.runnable.contains(&t) {
                self.spur_now = f;
                return t;
            }
        }
        if pt.cur_runnable {
            pt.cur
        } else {
            pt.runnable[0]
        }
    }
    fn spurious(&mut self, _p: &Point) -> bool {
        self.spur_now
    }
}

/// Adversary: after every step of the victim, the other threads run until they have completed
/// `k` more operations (or cannot run).
pub struct Adversary {
    victim: usize,
    /// the victim first completes this many operations undisturbed (it has "already used the crate")
    warm: usize,
    k: usize,
    target: Option<usize>,
    others_done_at_start: usize,
}

impl Strategy for Adversary {
    fn pick(&mut self, pt: &Point) -> usize {
        let others: Vec<usize> = pt.runnable.iter().copied().filter(|t| *t != self.victim).collect();
        let done: usize = pt
            .ops_done
            .iter()
            .enumerate()
            .filter(|(t, _)| *t != self.victim)
            .map(|(_, d)| *d)
            .sum();
        let victim_runnable = pt.runnable.contains(&self.victim);
        if victim_runnable && pt.ops_done[self.victim] < self.warm {
            return self.victim;
        }
        // the victim only gets a step while it is inside an operation; outside others may run freely
        match self.target {
            None => {
                if pt.cur == self.victim && victim_runnable && pt.in_op[self.victim] {
                    // victim is about to take a step: let it, then open a window for the others
                    self.target = Some(done + self.k);
                    self.others_done_at_start = done;
                    return self.victim;
                }
                if victim_runnable {
                    self.victim
                } else if !others.is_empty() {
                    others[0]
                } else {
                    pt.runnable[0]
                }
            }
            Some(tg) => {
                if done >= tg || others.is_empty() {
                    self.target = None;
                    if victim_runnable {
                        if pt.in_op[self.victim] {
                            self.target = Some(done + self.k);
                        }
                        return self.victim;
                    }
                    return pt.runnable[0];
                }
                // keep running the same other thread if possible
                if pt.cur != self.victim && others.contains(&pt.cur) {
                    pt.cur
                } else {
                    others[0]
                }
            }
        }
    }
}

/// Solo: follow a base strategy until global step `at`, then only `t` runs until it has
/// completed its current operation (+ `extra` more), after which the base strategy resumes.
pub struct Solo {
    base: Box<dyn Strategy>,
    at: usize,
    t: usize,
    frozen: bool,
    done_target: Option<usize>,
    pub solo_steps: usize,
}

impl Strategy for Solo {
    fn pick(&mut self, pt: &Point) -> usize {
        if !self.frozen && pt.step >= self.at && pt.runnable.contains(&self.t) && pt.in_op[self.t] {
            self.frozen = true;
            self.done_target = Some(pt.ops_done[self.t] + 1);
        }
        if self.frozen {
            if let Some(tg) = self.done_target {
                if pt.ops_done[self.t] < tg && pt.runnable.contains(&self.t) && self.solo_steps < 3000 {
                    self.solo_steps += 1;
                    return self.t;
                }
            }
            self.done_target = None;
        }
        self.base.pick(pt)
    }
    fn summary(&self) -> Value {
        serde_json::json!({"segments": 0, "reached": 0, "missed": 0, "first_missed": -1, "solo_max": self.solo_steps})
    }
    fn spurious(&mut self, p: &Point) -> bool {
        if self.frozen && self.done_target.is_some() {
            false
        } else {
            self.base.spurious(p)
        }
    }
}

/// Victim + atomic helpers: the victim runs; when it is about to take its own step number k
/// (for a point (k, u)), thread u runs to completion first. Setup threads (ids below `first`)
/// run before anything else.
pub struct Pb {
    victim: usize,
    points: Vec<(usize, usize)>,
    vsteps: usize,
    running: Option<usize>,
}

impl Strategy for Pb {
    fn pick(&mut self, pt: &Point) -> usize {
        // a helper that was switched to keeps running while it can
        if let Some(u) = self.running {
            if pt.runnable.contains(&u) {
                return u;
            }
            self.running = None;
        }
        if pt.runnable.contains(&self.victim) {
            // is a helper due before the victim's next own step?
            if let Some(pos) = self.points.iter().position(|(k, u)| *k == self.vsteps && pt.runnable.contains(u)) {
                let (_, u) = self.points.remove(pos);
                self.running = Some(u);
                return u;
            }
            self.vsteps += 1;
            return self.victim;
        }
        // victim blocked (waiting) or finished: lowest runnable thread that is not a pending helper
        let pending: Vec<usize> = self.points.iter().map(|p| p.1).collect();
        for t in pt.runnable {
            if !pending.contains(t) {
                return *t;
            }
        }
        pt.runnable[0]
    }
}

/// Segments: thread u runs n of its steps, then the next segment ... (all schedules of two threads
/// with a bounded number of context switches can be enumerated this way). Threads that are
/// blocked (waiting for the setup thread) do not consume their segment.
pub struct Segments {
    segs: Vec<(usize, usize)>,
    i: usize,
    used: usize,
}

impl Strategy for Segments {
    fn pick(&mut self, pt: &Point) -> usize {
        while self.i < self.segs.len() {
            let (u, n) = self.segs[self.i];
            if self.used >= n || (u < pt.gone.len() && pt.gone[u]) {
                self.i += 1;
                self.used = 0;
                continue;
            }
            if pt.runnable.contains(&u) {
                self.used += 1;
                return u;
            }
            // blocked: let somebody who is not part of the plan run (setup thread)
            let planned: Vec<usize> = self.segs[self.i..].iter().map(|s| s.0).collect();
            for t in pt.runnable {
                if !planned.contains(t) {
                    return *t;
                }
            }
            return pt.runnable[0];
        }
        if pt.cur_runnable {
            pt.cur
        } else {
            pt.runnable[0]
        }
    }
}

/// Site-directed segments (schedules derived from TLC behaviours of ArcSwapImpl): thread t runs until it is
/// about to perform an access matching `pat` for the n-th time within the segment; then the next segment.
/// A pattern matches a site if every '.'-separated field is equal or "*". An empty pattern = run to completion.
pub struct Until {
    segs: Vec<(usize, String, usize)>,
    i: usize,
    hits: usize,
    granted: usize,
    reached: usize,
    missed: usize,
    first_missed: i64,
}

fn site_matches(pat: &str, site: &str) -> bool {
    if pat == site {
        return true;
    }
    let p: Vec<&str> = pat.split('.').collect();
    let s: Vec<&str> = site.split('.').collect();
    p.len() == s.len() && p.iter().zip(s.iter()).all(|(a, b)| *a == "*" || a == b)
}

impl Strategy for Until {
    fn pick(&mut self, pt: &Point) -> usize {
        while self.i < self.segs.len() {
            let (u, pat, n) = (self.segs[self.i].0, self.segs[self.i].1.clone(), self.segs[self.i].2);
            if u < pt.gone.len() && pt.gone[u] {
                if pat.is_empty() {
                    self.reached += 1;
                } else {
                    self.missed += 1;
                    if self.first_missed < 0 {
                        self.first_missed = self.i as i64;
                    }
                }
                self.i += 1;
                self.hits = 0;
                self.granted = 0;
                continue;
            }
            if !pt.runnable.contains(&u) {
                // blocked (waiting for the setup thread): somebody outside the plan runs
                let planned: Vec<usize> = self.segs[self.i..].iter().map(|s| s.0).collect();
                for t in pt.runnable {
                    if !planned.contains(t) {
                        return *t;
                    }
                }
                return pt.runnable[0];
            }
            // "#k": exactly k steps of u
            if let Some(k) = pat.strip_prefix('#') {
                let k: usize = k.parse().unwrap_or(0);
                if self.granted >= k {
                    self.reached += 1;
                    self.i += 1;
                    self.hits = 0;
                    self.granted = 0;
                    continue;
                }
                self.granted += 1;
                return u;
            }
            // u is parked at pt.sites[u] (or not started yet: empty site)
            if !pat.is_empty() && site_matches(&pat, &pt.sites[u]) && (pt.cur == u || self.granted == 0) {
                // arrival at the pattern: the first arrival counts also when the thread was already parked there
                if self.hits + 1 >= n {
                    self.reached += 1;
                    self.i += 1;
                    self.hits = 0;
                    self.granted = 0;
                    continue;
                }
                if pt.cur == u || self.granted == 0 {
                    self.hits += 1;
                }
            }
            self.granted += 1;
            return u;
        }
        if pt.cur_runnable {
            pt.cur
        } else {
            pt.runnable[0]
        }
    }
    fn summary(&self) -> Value {
        serde_json::json!({"segments": self.segs.len(), "reached": self.reached, "missed": self.missed, "first_missed": self.first_missed, "solo_max": 0})
    }
}

fn parse_seq(v: &Value) -> Vec<(usize, bool)> {
    v.as_array()
        .map(|a| {
            a.iter()
                .map(|e| {
                    if let Some(t) = e.as_u64() {
                        (t as usize, false)
                    } else {
                        (e["t"].as_u64().unwrap_or(0) as usize, e["f"].as_str() == Some("spurious"))
                    }
                })
                .collect()
        })
        .unwrap_or_default()
}

pub fn from_json(v: &Value, nthreads: usize) -> Box<dyn Strategy> {
    let kind = v["kind"].as_str().unwrap_or("random");
    let seed = v["seed"].as_u64().unwrap_or(0);
    let spur = v["spur"].as_f64().unwrap_or(0.0);
    match kind {
        "pct" => {
            let mut rng = StdRng::seed_from_u64(seed);
            let d = v["d"].as_u64().unwrap_or(3) as usize;
            let len = v["len"].as_u64().unwrap_or(300) as usize;
            let mut prio: Vec<i64> = (0..nthreads as i64).map(|i| 1000 + i).collect();
            // shuffle
            for i in (1..prio.len()).rev() {
                let j = rng.gen_range(0..=i);
                prio.swap(i, j);
            }
            // the finalizer has the lowest priority anyway (it waits)
            let change = (0..d.saturating_sub(1)).map(|_| rng.gen_range(0..len)).collect();
            Box::new(Pct {
                prio,
                change,
                low: 0,
                rng,
                spur,
            })
        }
        "replay" => Box::new(StepReplay {
            seq: parse_seq(&v["seq"]),
            i: 0,
            spur_now: false,
        }),
        "adversary" => Box::new(Adversary {
            victim: v["victim"].as_u64().unwrap_or(0) as usize,
            warm: v["warm"].as_u64().unwrap_or(0) as usize,
            k: v["k"].as_u64().unwrap_or(1) as usize,
            target: None,
            others_done_at_start: 0,
        }),
        "pb" => Box::new(Pb {
            victim: v["victim"].as_u64().unwrap_or(1) as usize,
            points: v["points"]
                .as_array()
                .map(|a| a.iter().map(|p| (p[0].as_u64().unwrap() as usize, p[1].as_u64().unwrap() as usize)).collect())
                .unwrap_or_default(),
            vsteps: 0,
            running: None,
        }),
        "until" => Box::new(Until {
            segs: v["segs"]
                .as_array()
                .map(|a| {
                    a.iter()
                        .map(|p| (p[0].as_u64().unwrap() as usize, p[1].as_str().unwrap_or("").to_string(), p[2].as_u64().unwrap_or(1) as usize))
                        .collect()
                })
                .unwrap_or_default(),
            i: 0,
            hits: 0,
            granted: 0,
            reached: 0,
            missed: 0,
            first_missed: -1,
        }),
        "segs" => Box::new(Segments {
            segs: v["segs"]
                .as_array()
                .map(|a| a.iter().map(|p| (p[0].as_u64().unwrap() as usize, p[1].as_u64().unwrap() as usize)).collect())
                .unwrap_or_default(),
            i: 0,
            used: 0,
        }),
        "solo" => Box::new(Solo {
            base: from_json(&v["base"], nthreads),
            at: v["at"].as_u64().unwrap_or(0) as usize,
            t: v["t"].as_u64().unwrap_or(0) as usize,
            frozen: false,
            done_target: None,
            solo_steps: 0,
        }),
        _ => Box::new(Random {
            rng: StdRng::seed_from_u64(seed),
            p: v["p"].as_f64().unwrap_or(0.3),
            spur,
        }),
    }
}

//! Classification of the addresses of atomics into roles and abstraction of the words stored
//! in them (pointers -> arena slot ids, control words -> tagged small ints, ...).

use std::collections::HashMap;

use arc_swap::verif::{self, Kind};
use serde_json::{json, Value};

#[derive(Clone, Copy, Debug, PartialEq, Eq)]
pub enum VT {
    Ptr,
    Ctrl,
    StAddr,
    Env,
    NodePtr,
    Raw,
}

pub struct Roles {
    map: HashMap<usize, (&'static str, [i64; 2], VT)>,
    pub storages: HashMap<usize, i64>,
    pub node_idx: HashMap<usize, i64>,
    pub env_idx: HashMap<usize, i64>,
    pub nodes: usize,
}

impl Roles {
    pub const fn new_const() -> Option<Self> {
        None
    }
    pub fn new() -> Self {
        Roles {
            map: HashMap::new(),
            storages: HashMap::new(),
            node_idx: HashMap::new(),
            env_idx: HashMap::new(),
            nodes: 0,
        }
    }

    pub fn add_storage(&mut self, addr: usize, c: i64) {
        self.map.insert(addr, ("st", [c, 0], VT::Ptr));
        self.storages.insert(addr, c);
    }

    pub fn rescan(&mut self) {
        if self.map.get(&verif::list_head_addr()).is_none() {
            self.map
                .insert(verif::list_head_addr(), ("head", [0, 0], VT::NodePtr));
        }
        let infos = verif::nodes();
        // the list is prepend-only: new nodes are at the front; index by order of creation
        let fresh: Vec<_> = infos
            .iter()
            .filter(|i| !self.node_idx.contains_key(&i.addr))
            .collect();
        for info in fresh.iter().rev() {
            let n = self.nodes as i64;
            self.nodes += 1;
            self.node_idx.insert(info.addr, n);
            for (i, a) in info.fast.iter().enumerate() {
                self.map.insert(*a, ("fast", [n, i as i64], VT::Ptr));
            }
            self.map.insert(info.control, ("ctrl", [n, 0], VT::Ctrl));
            self.map.insert(info.slot, ("hslot", [n, 0], VT::Ptr));
            self.map
                .insert(info.active_addr, ("addr", [n, 0], VT::StAddr));
            self.map.insert(info.space_offer, ("space", [n, 0], VT::Env));
            self.map.insert(info.handover, ("env", [n, 0], VT::Ptr));
            self.env_idx.insert(info.handover, n);
            self.map.insert(info.in_use, ("inuse", [n, 0], VT::Raw));
            self.map
                .insert(info.active_writers, ("wr", [n, 0], VT::Raw));
        }
    }

    pub fn classify(&mut self, addr: usize) -> (&'static str, [i64; 2], VT) {
        if let Some(r) = self.map.get(&addr) {
            return *r;
        }
        self.rescan();
        if let Some(r) = self.map.get(&addr) {
            return *r;
        }
        ("unk", [0, 0], VT::Raw)
    }

    /// Arena slot id (1-based) of a pointer, 0 for null, -1 for the NONE marker, -3 unknown.
    pub fn ptr_id(&self, raw: usize) -> i64 {
        if raw == 0 {
            0
        } else if raw == verif::DEBT_NONE {
            -1
        } else {
            match crate::vptr::slot_of_addr(raw) {
                Some(s) => s as i64 + 1,
                None => -3,
            }
        }
    }

    /// The object id currently (or last) living at this address; 0 for null.
    pub fn obj_of(&self, raw: usize) -> i64 {
        if raw == 0 {
            0
        } else {
            crate::vptr::obj_of_addr(raw).map(|o| o as i64).unwrap_or(-3)
        }
    }

    pub fn abs(&self, vt: VT, raw: usize, _k: Kind) -> Value {
        match vt {
            VT::Ptr => json!(self.ptr_id(raw)),
            VT::Ctrl => {
                let tag = raw & 3;
                if raw == 0 {
                    json!(0)
                } else if tag == 2 {
                    json!(2 + 4 * (((raw >> 2) & 0xFFFFF) as i64))
                } else if tag == 1 {
                    let e = self.env_idx.get(&(raw & !3)).copied().unwrap_or(-3);
                    json!(1 + 4 * e)
                } else {
                    json!(-3)
                }
            }
            VT::StAddr => json!(self.storages.get(&raw).map(|c| c + 1).unwrap_or(0)),
            VT::Env => {
                if raw == 0 {
                    json!(0)
                } else {
                    json!(self.env_idx.get(&raw).map(|e| e + 1).unwrap_or(-3))
                }
            }
            VT::NodePtr => {
                if raw == 0 {
                    json!(0)
                } else {
                    json!(self.node_idx.get(&raw).map(|e| e + 1).unwrap_or(-2))
                }
            }
            VT::Raw => json!((raw & 0xFFFFFF) as i64),
        }
    }
}

//! C20: serde transparency. Value shapes come from TLC (spec/SerdeShapes.tla), one JSON value per line.

use std::io::BufRead;
use std::sync::{Arc, RwLock};

use arc_swap::{ArcSwapAny, DefaultStrategy};
use serde_json::{json, Value};

fn one<S>(v: &Value, sname: &str, fails: &mut Vec<Value>) -> usize
where
    S: arc_swap::strategy::Strategy<Arc<Value>> + arc_swap::strategy::Strategy<Option<Arc<Value>>> + Default,
{
    let mut n = 0;
    let mut fail = |why: &str| {
        if fails.len() < 20 {
            fails.push(json!({"why": why, "strategy": sname, "value": v}));
        }
    };
    // ArcSwap<Value>
    let c: ArcSwapAny<Arc<Value>, S> = ArcSwapAny::new(Arc::new(v.clone()));
    let enc_c = serde_json::to_value(&c).unwrap();
    let enc_p = serde_json::to_value(&*c.load()).unwrap();
    if enc_c != enc_p || enc_c != *v {
        fail("serializing the container differs from serializing the stored pointer");
    }
    let back: ArcSwapAny<Arc<Value>, S> = serde_json::from_value(enc_c.clone()).unwrap();
    let full = back.load_full();
    if *full != *v {
        fail("deserialized container does not hold the deserialized value");
    }
    if Arc::strong_count(&full) != 2 {
        fail("deserialized container holds more than a single reference");
    }
    if serde_json::to_value(&back).unwrap() != *v {
        fail("round trip does not preserve the value");
    }
    // text encoding as well
    let text = serde_json::to_string(&c).unwrap();
    if text != serde_json::to_string(&*c.load()).unwrap() {
        fail("text encoding differs");
    }
    n += 1;
    // ArcSwapOption<Value>: Some and None
    for opt in [Some(Arc::new(v.clone())), None] {
        let c: ArcSwapAny<Option<Arc<Value>>, S> = ArcSwapAny::new(opt.clone());
        let enc_c = serde_json::to_value(&c).unwrap();
        let enc_p = serde_json::to_value(&*c.load()).unwrap();
        let want = match &opt {
            Some(x) => (**x).clone(),
            None => Value::Null,
        };
        if enc_c != enc_p || enc_c != want {
            fail("serializing the option container differs from serializing the stored pointer");
        }
        let back: ArcSwapAny<Option<Arc<Value>>, S> = serde_json::from_value(enc_c).unwrap();
        let got = back.load_full();
        // JSON null is both None and Some(Null): serde's Option takes it as None
        let want_back = if want.is_null() { None } else { Some(want.clone()) };
        if got.as_deref().cloned() != want_back {
            fail("deserialized option container does not hold the deserialized value");
        }
        if let Some(a) = &got {
            if Arc::strong_count(a) != 2 {
                fail("deserialized option container holds more than a single reference");
            }
        }
        n += 1;
    }
    n
}

pub fn run(path: &str) -> Value {
    let f = std::fs::File::open(path).expect("open shapes");
    let mut fails = Vec::new();
    let mut values = 0usize;
    let mut checks = 0usize;
    for line in std::io::BufReader::new(f).lines() {
        let line = line.unwrap();
        if line.trim().is_empty() {
            continue;
        }
        let v: Value = serde_json::from_str(&line).expect("shape json");
        values += 1;
        checks += one::<DefaultStrategy>(&v, "default", &mut fails);
        #[allow(deprecated)]
        {
            checks += one::<arc_swap::strategy::test_strategies::FillFastSlots>(&v, "nofast", &mut fails);
        }
        checks += one::<RwLock<()>>(&v, "rwlock", &mut fails);
    }
    json!({"values": values, "checks": checks, "failures": fails})
}

//! C20: serde transparency. Value shapes come from TLC (spec/SerdeShapes.tla), one JSON value per line.

use std::io::BufRead;
use std::sync::{Arc, RwLock};

use arc_swap::{ArcSwapAny, DefaultStrategy};
use serde_json::{json, Value};

fn one<S>(v: &Value, sname: &str, fails: &mut Vec<Value>) -> usize
where
    S: arc_swap::strategy::Strategy<Arc<Value>> + arc_swap::strategy::Strategy<Option<Arc<Value>>> + Default,
{
    let mut n = 0;
    let mut fail = |why: &str| {
        if fails.len() < 20 {
            fails.push(json!({"why": why, "strategy": sname, "value": v}));
        }
    };
    // ArcSwap<Value>
    let c: ArcSwapAny<Arc<Value>, S> = ArcSwapAny::new(Arc::new(v.clone()));
    let enc_c = serde_json::to_value(&c).unwrap();
    let enc_p = serde_json::to_value(&*c.load()).unwrap();
    if enc_c != enc_p || enc_c != *v {
        fail("serializing the container differs from serializing the stored pointer");
    }
    let back: ArcSwapAny<Arc<Value>, S> = serde_json::from_value(enc_c.clone()).unwrap();
    let full = back.load_full();
    if *full != *v {
        fail("deserialized container does not hold the deserialized value");
    }
    if Arc::strong_count(&full) != 2 {
        fail("deserialized container holds more than a single reference");
    }
    if serde_json::to_value(&back).unwrap() != *v {
        fail("round trip does not preserve the value");
    }
    // ... and nothing else refers to it behind the scenes: taking it out again leaves exactly the two handles we hold
    let taken = back.swap(Arc::new(Value::Null));
    if !Arc::ptr_eq(&taken, &full) || Arc::strong_count(&full) != 2 {
        fail("the deserialized value has hidden references (count after taking it out of the container is not the number of handles)");
    }
    drop(taken);
    // text encoding as well
    let text = serde_json::to_string(&c).unwrap();
    if text != serde_json::to_string(&*c.load()).unwrap() {
        fail("text encoding differs");
    }
    n += 1;
    // ArcSwapOption<Value>: Some and None
    for opt in [Some(Arc::new(v.clone())), None] {
        let c: ArcSwapAny<Option<Arc<Value>>, S> = ArcSwapAny::new(opt.clone());
        let enc_c = serde_json::to_value(&c).unwrap();
        let enc_p = serde_json::to_value(&*c.load()).unwrap();
        let want = match &opt {
            Some(x) => (**x).clone(),
            None => Value::Null,
        };
        if enc_c != enc_p || enc_c != want {
            fail("serializing the option container differs from serializing the stored pointer");
        }
        let back: ArcSwapAny<Option<Arc<Value>>, S> = serde_json::from_value(enc_c).unwrap();
        let got = back.load_full();
        // JSON null is both None and Some(Null): serde's Option takes it as None
        let want_back = if want.is_null() { None } else { Some(want.clone()) };
        if got.as_deref().cloned() != want_back {
            fail("deserialized option container does not hold the deserialized value");
        }
        if let Some(a) = &got {
            if Arc::strong_count(a) != 2 {
                fail("deserialized option container holds more than a single reference");
            }
        }
        let taken = back.swap(None);
        if let (Some(a), Some(t)) = (&got, &taken) {
            if !Arc::ptr_eq(a, t) || Arc::strong_count(a) != 2 {
                fail("the deserialized option value has hidden references (count after taking it out of the container is not the number of handles)");
            }
        }
        drop(taken);
        n += 1;
    }
    n
}

// ---- histories: the relation must not depend on earlier (failed) serializations on the same thread
thread_local! {
    static MODE: std::cell::Cell<u8> = const { std::cell::Cell::new(0) };
}

/// A pointee whose own Serialize can be made to fail: 1 = error, 2 = panic.
#[derive(Clone, Debug, PartialEq)]
struct Flaky(Value);
impl serde::Serialize for Flaky {
    fn serialize<S: serde::Serializer>(&self, s: S) -> Result<S::Ok, S::Error> {
        match MODE.with(|m| m.get()) {
            1 => Err(<S::Error as serde::ser::Error>::custom("injected failure")),
            2 => panic!("injected panic"),
            _ => self.0.serialize(s),
        }
    }
}

/// Outcome of one serialization: the value, the error text, or "panic".
fn outcome<T: serde::Serialize>(x: &T) -> String {
    match std::panic::catch_unwind(std::panic::AssertUnwindSafe(|| serde_json::to_value(x))) {
        Ok(Ok(v)) => format!("ok:{}", v),
        Ok(Err(e)) => format!("err:{}", e),
        Err(_) => "panic".to_string(),
    }
}

#[derive(serde::Serialize)]
struct Nest {
    v: i64,
    next: arc_swap::ArcSwapOption<Nest>,
}

fn nest(d: usize) -> Nest {
    let mut cur = Nest { v: 0, next: arc_swap::ArcSwapOption::from(None) };
    for i in 1..d {
        cur = Nest { v: i as i64, next: arc_swap::ArcSwapOption::from(Some(Arc::new(cur))) };
    }
    cur
}

fn nest_json(d: usize) -> Value {
    let mut cur = json!({"v": 0, "next": null});
    for i in 1..d {
        cur = json!({"v": i as i64, "next": cur});
    }
    cur
}

fn history<S>(h: &Value, sname: &str, fails: &mut Vec<Value>) -> usize
where
    S: arc_swap::strategy::Strategy<Arc<Flaky>> + arc_swap::strategy::Strategy<Option<Arc<Flaky>>> + Default + 'static,
{
    let kind = h["kind"].as_str().unwrap().to_string();
    let count = h["count"].as_u64().unwrap() as usize;
    let h2 = h.clone();
    let sname = sname.to_string();
    // a fresh thread per history: whatever state a serialization leaves behind is per thread
    let r = std::thread::Builder::new()
        .stack_size(64 * 1024 * 1024)
        .spawn(move || {
            let mut out: Vec<Value> = Vec::new();
            let mut n = 0usize;
            let mut fail = |why: String| out.push(json!({"why": why, "strategy": sname, "value": h2}));
            let v = json!({"a": [1, "x"], "b": null});
            let c: ArcSwapAny<Arc<Flaky>, S> = ArcSwapAny::new(Arc::new(Flaky(v.clone())));
            let o: ArcSwapAny<Option<Arc<Flaky>>, S> = ArcSwapAny::new(Some(Arc::new(Flaky(v.clone()))));
            let none: ArcSwapAny<Option<Arc<Flaky>>, S> = ArcSwapAny::new(None);
            let mode = if kind == "err" { 1 } else { 2 };
            for i in 0..count {
                MODE.with(|m| m.set(mode));
                let (a, b) = (outcome(&c), outcome(&*c.load()));
                let (a2, b2) = (outcome(&o), outcome(&*o.load()));
                MODE.with(|m| m.set(0));
                if a != b || a2 != b2 {
                    fail(format!("failing serialization #{}: the container reports {:?} / {:?}, the stored pointer {:?} / {:?}", i + 1, a, a2, b, b2));
                    break;
                }
                n += 2;
            }
            // afterwards everything is as if nothing had happened
            for round in 0..3 {
                let want = format!("ok:{}", v);
                let got = [outcome(&c), outcome(&*c.load()), outcome(&o), outcome(&*o.load())];
                if got.iter().any(|g| *g != want) || outcome(&none) != "ok:null" {
                    fail(format!(
                        "after {} serializations that failed in the pointee ({}), serializing the container gives {:?} / {:?} / {:?} but the stored pointer {:?} (round {})",
                        count, kind, got[0], got[2], outcome(&none), got[1], round
                    ));
                    break;
                }
                n += 5;
            }
            if Arc::strong_count(&c.load_full()) != 2 {
                fail("references leaked by failed serializations".to_string());
            }
            (out, n)
        })
        .unwrap()
        .join();
    match r {
        Ok((out, n)) => {
            for f in out {
                if fails.len() < 20 {
                    fails.push(f);
                }
            }
            n
        }
        Err(_) => {
            fails.push(json!({"why": "history check died", "strategy": "?", "value": h}));
            0
        }
    }
}

fn nesting(h: &Value, fails: &mut Vec<Value>) -> usize {
    let d = h["depth"].as_u64().unwrap() as usize;
    let h2 = h.clone();
    let r = std::thread::Builder::new()
        .stack_size(256 * 1024 * 1024)
        .spawn(move || {
            let c = arc_swap::ArcSwap::from_pointee(nest(d));
            let (a, b) = (outcome(&c), outcome(&*c.load()));
            let want = format!("ok:{}", nest_json(d));
            // twice: the second time on a thread that has already serialized d levels
            let (a2, b2) = (outcome(&c), outcome(&*c.load()));
            let leak = std::mem::ManuallyDrop::new(c); // (a long chain: do not recurse in drop on a small stack)
            let _ = &leak;
            if a != b || a != want || a2 != want || b2 != want {
                Some(json!({"why": format!("containers nested {} deep: the container serializes as {:.80} but the stored pointer as {:.80}", d, a, b), "strategy": "default", "value": h2}))
            } else {
                None
            }
        })
        .unwrap()
        .join();
    match r {
        Ok(Some(f)) => fails.push(f),
        Ok(None) => {}
        Err(_) => fails.push(json!({"why": "nesting check died", "strategy": "default", "value": h})),
    }
    4
}

pub fn run_histories(path: &str) -> Value {
    let f = std::fs::File::open(path).expect("open histories");
    let mut fails = Vec::new();
    let mut values = 0usize;
    let mut checks = 0usize;
    for line in std::io::BufReader::new(f).lines() {
        let line = line.unwrap();
        if line.trim().is_empty() {
            continue;
        }
        let h: Value = serde_json::from_str(&line).expect("history json");
        values += 1;
        if h["kind"] == "nest" {
            checks += nesting(&h, &mut fails);
            continue;
        }
        checks += history::<DefaultStrategy>(&h, "default", &mut fails);
        #[allow(deprecated)]
        {
            checks += history::<arc_swap::strategy::test_strategies::FillFastSlots>(&h, "nofast", &mut fails);
        }
        checks += history::<RwLock<()>>(&h, "rwlock", &mut fails);
    }
    json!({"values": values, "checks": checks, "failures": fails})
}

pub fn run(path: &str) -> Value {
    let f = std::fs::File::open(path).expect("open shapes");
    let mut fails = Vec::new();
    let mut values = 0usize;
    let mut checks = 0usize;
    for line in std::io::BufReader::new(f).lines() {
        let line = line.unwrap();
        if line.trim().is_empty() {
            continue;
        }
        let v: Value = serde_json::from_str(&line).expect("shape json");
        values += 1;
        checks += one::<DefaultStrategy>(&v, "default", &mut fails);
        #[allow(deprecated)]
        {
            checks += one::<arc_swap::strategy::test_strategies::FillFastSlots>(&v, "nofast", &mut fails);
        }
        checks += one::<RwLock<()>>(&v, "rwlock", &mut fails);
    }
    json!({"values": values, "checks": checks, "failures": fails})
}

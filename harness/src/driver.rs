//! Interpreter of the operation alphabet on the real arc-swap.

use std::cell::RefCell;
use std::panic::{catch_unwind, AssertUnwindSafe};
use std::sync::{Arc, Mutex};

use arc_swap::cache::Cache;
use arc_swap::strategy::{CaS, Strategy};
use arc_swap::{ArcSwapAny, Guard};
use serde::{Deserialize, Serialize};
use serde_json::{json, Value};

use crate::sched;
use crate::vptr::VPtr;

pub type T = Option<VPtr>;
/// The containers of one execution live NEXT TO EACH OTHER in one block of memory, like the elements of a `Vec<ArcSwap>` or
/// the fields of a struct (C12: isolation must not depend on the containers being far apart).
pub struct Slot<S: Strategy<T>>(*mut ArcSwapAny<T, S>);
unsafe impl<S: Strategy<T> + Send + Sync> Send for Slot<S> {}
unsafe impl<S: Strategy<T> + Send + Sync> Sync for Slot<S> {}
impl<S: Strategy<T>> Drop for Slot<S> {
    fn drop(&mut self) {
        // the memory itself stays with the (leaked) block
        unsafe { std::ptr::drop_in_place(self.0) }
    }
}
pub struct Cont<S: Strategy<T>>(Arc<Slot<S>>);
impl<S: Strategy<T>> Clone for Cont<S> {
    fn clone(&self) -> Self {
        Cont(self.0.clone())
    }
}
impl<S: Strategy<T>> std::ops::Deref for Cont<S> {
    type Target = ArcSwapAny<T, S>;
    fn deref(&self) -> &ArcSwapAny<T, S> {
        unsafe { &*(self.0).0 }
    }
}
/// (start of the current block, bytes used); a fresh block per execution
static ARENA: Mutex<(usize, usize)> = Mutex::new((0, 0));
pub fn arena_reset() {
    *ARENA.lock().unwrap_or_else(|p| p.into_inner()) = (0, 0);
}
impl<S: Strategy<T>> Cont<S> {
    fn new(c: ArcSwapAny<T, S>) -> Self {
        let (size, align) = (std::mem::size_of::<ArcSwapAny<T, S>>(), std::mem::align_of::<ArcSwapAny<T, S>>());
        let mut a = ARENA.lock().unwrap_or_else(|p| p.into_inner());
        if a.0 == 0 || a.1 + size > 1024 {
            let block = unsafe { std::alloc::alloc(std::alloc::Layout::from_size_align(1024, 64).unwrap()) };
            *a = (block as usize, 0);
        }
        a.1 = (a.1 + align - 1) / align * align;
        let p = (a.0 + a.1) as *mut ArcSwapAny<T, S>;
        a.1 += size;
        unsafe { std::ptr::write(p, c) };
        Cont(Arc::new(Slot(p)))
    }
    /// The container itself, if nobody else (a cache, a projection) refers to it.
    fn try_take(self) -> Result<ArcSwapAny<T, S>, Self> {
        match Arc::try_unwrap(self.0) {
            Ok(slot) => {
                let v = unsafe { std::ptr::read(slot.0) };
                std::mem::forget(slot);
                Ok(v)
            }
            Err(a) => Err(Cont(a)),
        }
    }
}

#[derive(Clone, Debug, Serialize, Deserialize)]
#[serde(rename_all = "snake_case")]
pub enum Src {
    /// A freshly allocated object (pd: its destructor panics)
    New { pd: bool },
    /// A clone of handle register h
    H(usize),
    /// Handle register h, moved
    Mv(usize),
    Null,
}

#[derive(Clone, Debug, Serialize, Deserialize)]
#[serde(rename_all = "snake_case")]
pub enum Cur {
    /// the guard itself, by value (consumed)
    G(usize),
    /// reference to a guard
    Gref(usize),
    /// reference to a handle (&T)
    H(usize),
    /// *mut of handle
    RawMut(usize),
    /// *const of handle
    RawConst(usize),
    Null,
}

#[derive(Clone, Debug, Serialize, Deserialize)]
#[serde(tag = "op", rename_all = "snake_case")]
pub enum Op {
    New { c: usize, v: Src },
    Load { c: usize, g: usize },
    LoadFull { c: usize, h: usize },
    DropG { g: usize },
    IntoInner { g: usize, h: usize },
    FromInner { h: usize, g: usize },
    DerefG { g: usize },
    DropH { h: usize },
    DerefH { h: usize },
    Store { c: usize, v: Src },
    Swap { c: usize, v: Src, h: usize },
    Cas { c: usize, cur: Cur, v: Src, g: usize },
    /// nested: operations run from inside the closure on attempts 1..=nested_until (re-entrancy)
    Rcu { c: usize, h: usize, #[serde(default)] panic_at: u32, #[serde(default)] pd: bool, #[serde(default)] nested: Vec<Op>, #[serde(default)] nested_until: u32 },
    IntoInnerC { c: usize, h: usize },
    /// unwinding: the container is dropped by the unwinding of a panic in its owner's frame (std::thread::panicking() is true)
    DropC { c: usize, #[serde(default)] unwinding: bool },
    /// m: a mapped cache (Cache::map with a projection) instead of a plain one
    CacheNew { x: usize, c: usize, #[serde(default)] m: bool },
    CacheLoad { x: usize },
    CacheDrop { x: usize },
    CacheClone { x: usize, y: usize },
    /// wait until logical thread t is gone
    Wait { t: usize },
    /// preset the generation counter so that it wraps after `back` more fallback loads
    SetGen { back: u64 },
    /// run ops from a thread-local destructor; early = registered before the first use of the crate
    Tls { early: bool, ops: Vec<Op> },
    /// hold guards so that only `free` fast slots remain on this thread (registers from base)
    Pad { c: usize, free: usize, base: usize },
    /// load through the Access machinery; kind: 0 container, 1 Map (static), 2 Box<dyn DynAccess>, 3 Map of Map,
    /// 4 AccessConvert, 5 Map over &container
    AccLoad { c: usize, p: usize, kind: u32 },
    DerefP { p: usize },
    /// serde: serialize the container (C20)
    Ser { c: usize },
    DropP { p: usize },
    /// A few steps doing nothing (scheduling points only)
    Nop,
}

#[derive(Clone, Debug, Serialize, Deserialize, Default)]
pub struct Program {
    pub threads: Vec<Vec<Op>>,
    #[serde(default)]
    pub strategy: String,
    #[serde(default)]
    pub reuse: String,
    /// scheduling points after which the execution counts as not terminating (0 = default)
    #[serde(default)]
    pub step_limit: usize,
}

/// A projection guard of any type, reduced to what the checks look at.
pub trait ProjG {
    /// (object id, alive, inner tag) as seen through the guard right now
    fn see(&self) -> (u32, bool, u32);
}
pub struct ProjBox(pub Box<dyn ProjG>);
// the harness serialises all access (baton)
unsafe impl Send for ProjBox {}
impl RegKind for ProjBox {
    const K: &'static str = "p";
}
struct PInner<G: std::ops::Deref<Target = crate::vptr::Inner>>(G, u32);
impl<G: std::ops::Deref<Target = crate::vptr::Inner>> ProjG for PInner<G> {
    fn see(&self) -> (u32, bool, u32) {
        let tag = self.0.tag.load(std::sync::atomic::Ordering::Relaxed);
        (tag, true, tag)
    }
}
/// a projection of a Constant: must always show the constant itself
struct PConst<G: std::ops::Deref<Target = u32>>(G, u32);
impl<G: std::ops::Deref<Target = u32>> ProjG for PConst<G> {
    fn see(&self) -> (u32, bool, u32) {
        (*self.0, true, self.1)
    }
}
fn id_u32(c: &u32) -> &u32 {
    c
}
struct PObj<G: std::ops::Deref<Target = crate::vptr::Obj>>(G);
impl<G: std::ops::Deref<Target = crate::vptr::Obj>> ProjG for PObj<G> {
    fn see(&self) -> (u32, bool, u32) {
        let (id, alive) = self.0.peek();
        (id, alive, self.0.inner_ref().tag.load(std::sync::atomic::Ordering::Relaxed))
    }
}
struct PT<G: std::ops::Deref<Target = T>>(G);
impl<G: std::ops::Deref<Target = T>> ProjG for PT<G> {
    fn see(&self) -> (u32, bool, u32) {
        match &*self.0 {
            None => (0, true, 0),
            Some(p) => p.read(),
        }
    }
}

fn proj_obj(t: &T) -> &crate::vptr::Obj {
    match t {
        Some(p) => p.obj_ref(),
        None => &crate::vptr::NULL_OBJ,
    }
}
fn proj_inner(t: &T) -> &crate::vptr::Inner {
    match t {
        Some(p) => p.inner(),
        None => &crate::vptr::NULL_INNER,
    }
}
fn proj_obj_inner(o: &crate::vptr::Obj) -> &crate::vptr::Inner {
    o.inner_ref()
}

fn whole(v: &T) -> &T {
    v
}

/// A plain cache or a mapped one (the projection is the whole value, so that its identity can be observed).
pub enum XCache<S: Strategy<T>> {
    Plain(Cache<Cont<S>, T>),
    Mapped(arc_swap::cache::MapCache<Cont<S>, T, fn(&T) -> &T>),
}

impl<S: Strategy<T>> Clone for XCache<S> {
    fn clone(&self) -> Self {
        match self {
            XCache::Plain(c) => XCache::Plain(c.clone()),
            XCache::Mapped(m) => XCache::Mapped(m.clone()),
        }
    }
}

impl<S: Strategy<T>> XCache<S> {
    fn load(&mut self) -> &T {
        match self {
            XCache::Plain(c) => c.load(),
            XCache::Mapped(m) => arc_swap::cache::Access::load(m),
        }
    }
}

pub struct World<S: Strategy<T>> {
    pub projs: Vec<Option<ProjBox>>,
    pub conts: Vec<Option<Cont<S>>>,
    pub guards: Vec<Option<Guard<T, S>>>,
    pub handles: Vec<Option<T>>,
    pub caches: Vec<Option<XCache<S>>>,
}

impl<S: Strategy<T>> World<S> {
    pub fn new() -> Self {
        World {
            projs: Vec::new(),
            conts: Vec::new(),
            guards: Vec::new(),
            handles: Vec::new(),
            caches: Vec::new(),
        }
    }
}

/// Kind tag of a register file (for the hand-over events of the happens-before monitor).
pub trait RegKind {
    const K: &'static str;
}
impl<S: Strategy<T>> RegKind for Guard<T, S> {
    const K: &'static str = "g";
}
impl RegKind for T {
    const K: &'static str = "h";
}
impl<S: Strategy<T>> RegKind for XCache<S> {
    const K: &'static str = "x";
}
impl<S: Strategy<T>> RegKind for Cont<S> {
    const K: &'static str = "c";
}

/// Registers are shared between the logical threads: storing into one and using it from another
/// thread is a user-level hand-over (a channel, a join ...), i.e. a happens-before edge.
fn put<X: RegKind>(v: &mut Vec<Option<X>>, i: usize, x: X) -> Option<X> {
    while v.len() <= i {
        v.push(None);
    }
    sched::log(json!({"e": "put", "t": sched::tid() as i64, "k": X::K, "r": i as i64}));
    v[i].replace(x)
}

fn take<X: RegKind>(v: &mut Vec<Option<X>>, i: usize) -> Option<X> {
    if i < v.len() {
        let r = v[i].take();
        if r.is_some() {
            used(X::K, i);
        }
        r
    } else {
        None
    }
}

fn used(k: &str, i: usize) {
    sched::log(json!({"e": "use", "t": sched::tid() as i64, "k": k, "r": i as i64}));
}

pub fn val_id(v: &T) -> i64 {
    match v {
        None => 0,
        Some(p) => p.id() as i64,
    }
}

/// Cur-forms that depend on the strategy (the by-value / by-reference guard forms exist only for
/// the default strategy).
pub trait CurForms: Strategy<T> + CaS<T> + Sized {
    fn cas_g(c: &ArcSwapAny<T, Self>, cur: Guard<T, Self>, new: T) -> Guard<T, Self>;
    fn cas_gref(c: &ArcSwapAny<T, Self>, cur: &Guard<T, Self>, new: T) -> Guard<T, Self>;
}

impl CurForms for arc_swap::DefaultStrategy {
    fn cas_g(c: &ArcSwapAny<T, Self>, cur: Guard<T, Self>, new: T) -> Guard<T, Self> {
        c.compare_and_swap(cur, new)
    }
    fn cas_gref(c: &ArcSwapAny<T, Self>, cur: &Guard<T, Self>, new: T) -> Guard<T, Self> {
        c.compare_and_swap(cur, new)
    }
}

#[allow(deprecated)]
impl CurForms for arc_swap::strategy::test_strategies::FillFastSlots {
    fn cas_g(c: &ArcSwapAny<T, Self>, cur: Guard<T, Self>, new: T) -> Guard<T, Self> {
        let r = c.compare_and_swap(&*cur, new);
        drop(cur);
        r
    }
    fn cas_gref(c: &ArcSwapAny<T, Self>, cur: &Guard<T, Self>, new: T) -> Guard<T, Self> {
        c.compare_and_swap(&**cur, new)
    }
}

impl CurForms for std::sync::RwLock<()> {
    fn cas_g(c: &ArcSwapAny<T, Self>, cur: Guard<T, Self>, new: T) -> Guard<T, Self> {
        let r = c.compare_and_swap(&*cur, new);
        drop(cur);
        r
    }
    fn cas_gref(c: &ArcSwapAny<T, Self>, cur: &Guard<T, Self>, new: T) -> Guard<T, Self> {
        c.compare_and_swap(&**cur, new)
    }
}

pub struct Ctx<S: Strategy<T>> {
    pub w: Arc<Mutex<World<S>>>,
}

impl<S: Strategy<T>> Clone for Ctx<S> {
    fn clone(&self) -> Self {
        Ctx { w: self.w.clone() }
    }
}

fn wl<S: Strategy<T>>(w: &Arc<Mutex<World<S>>>) -> std::sync::MutexGuard<'_, World<S>> {
    match w.lock() {
        Ok(g) => g,
        Err(p) => p.into_inner(),
    }
}

fn inv(op: &str, c: i64, a: i64, b: i64, r: i64) {
    sched::yield_at(false, "inv");
    sched::op_begin();
    sched::log(json!({"e": "inv", "t": sched::tid() as i64, "op": op, "c": c, "a": a, "b": b, "r": r}));
}

/// The value passed into the pending operation (created or cloned inside it).
fn arg(v: i64) {
    sched::log(json!({"e": "arg", "t": sched::tid() as i64, "v": v}));
}

fn ret(op: &str, c: i64, v: i64, r: i64, own: i64) {
    let (steps, q) = sched::op_end();
    // which bookkeeping node this thread considers its own, and whether that node is reserved (in_use == USED)
    let (tn, tu) = match arc_swap::verif::thread_node() {
        Some(a) => {
            let ns = arc_swap::verif::nodes();
            match ns.iter().position(|n| n.addr == a) {
                Some(p) => ((ns.len() - 1 - p) as i64, ns[p].in_use_val as i64),
                None => (-2, -1),
            }
        }
        None => (-1, -1),
    };
    sched::log(json!({"e": "ret", "t": sched::tid() as i64, "op": op, "c": c, "v": v, "r": r, "n": steps as i64, "own": own, "tn": tn, "tu": tu}));
    if q {
        quiescent();
    }
}

/// Log the ledger-relevant state at a quiescent point.
pub fn quiescent() {
    let snap = crate::vptr::snapshot();
    let nodes = arc_swap::verif::nodes();
    let mut slots: Vec<i64> = Vec::new();
    let mut busy = 0i64;
    let mut inuse: Vec<i64> = Vec::new();
    let mut writers = 0i64;
    for n in nodes.iter().rev() {
        for v in n.fast_vals.iter().chain(std::iter::once(&n.slot_val)) {
            if *v != arc_swap::verif::DEBT_NONE {
                slots.push(if *v == 0 { 0 } else { crate::vptr::obj_of_addr(*v).map(|o| o as i64).unwrap_or(-3) });
            }
        }
        if n.control_val != 0 {
            busy += 1;
        }
        inuse.push(n.in_use_val as i64);
        writers += n.active_writers_val as i64;
    }
    // which hand-over envelope every node offers (internal invariant: nobody shares one at a quiescent point)
    let spaces: Vec<i64> = sched::with(|g| {
        g.roles.rescan();
        nodes.iter().rev().map(|n| g.roles.abs(crate::roles::VT::Env, n.space_offer_val, arc_swap::verif::Kind::Load).as_i64().unwrap_or(-3)).collect()
    });
    let cnt: Vec<Value> = snap
        .iter()
        .filter(|s| s.2)
        .map(|s| json!([s.0, s.1 as i64]))
        .collect();
    let dead: Vec<i64> = snap.iter().filter(|s| !s.2).map(|s| s.0 as i64).collect();
    sched::log(json!({"e": "q", "cnt": cnt, "dead": dead, "slots": slots, "busy": busy, "inuse": inuse, "wr": writers, "spaces": spaces}));
}

fn mk_src<S: Strategy<T>>(w: &Arc<Mutex<World<S>>>, s: &Src, parent: i64) -> T {
    match s {
        Src::New { pd } => Some(VPtr::alloc(parent, *pd)),
        Src::H(h) => {
            // take a non-counted alias under the lock, clone it (a scheduling point) outside
            used("h", *h);
            let alias: Option<T> = {
                let g = wl(w);
                g.handles.get(*h).and_then(|x| x.as_ref()).map(|v| match v {
                    Some(p) => Some(unsafe { std::ptr::read(p) }),
                    None => None,
                })
            };
            match alias {
                None => None,
                Some(a) => {
                    let a = std::mem::ManuallyDrop::new(a);
                    (*a).clone()
                }
            }
        }
        Src::Mv(h) => take(&mut wl(w).handles, *h).unwrap_or(None),
        Src::Null => None,
    }
}

fn cont<S: Strategy<T>>(w: &Arc<Mutex<World<S>>>, c: usize) -> Option<Cont<S>> {
    let r = wl(w).conts.get(c).and_then(|x| x.clone());
    if r.is_some() {
        used("c", c);
    }
    r
}

thread_local! {
    static TLS_OPS: RefCell<Vec<Box<dyn FnOnce()>>> = const { RefCell::new(Vec::new()) };
}

struct TlsRunner(Option<Box<dyn FnOnce()>>);
impl Drop for TlsRunner {
    fn drop(&mut self) {
        if let Some(f) = self.0.take() {
            let _ = catch_unwind(AssertUnwindSafe(f));
        }
    }
}
thread_local! {
    static TLS_EARLY: RefCell<Option<TlsRunner>> = const { RefCell::new(None) };
    static TLS_LATE: RefCell<Option<TlsRunner>> = const { RefCell::new(None) };
}

pub fn run_op<S>(ctx: &Ctx<S>, op: &Op)
where
    S: Strategy<T> + CaS<T> + CurForms + Default + Send + Sync + 'static,
    S::Protected: Send,
{
    let r = catch_unwind(AssertUnwindSafe(|| run_op_inner(ctx, op)));
    if let Err(e) = r {
        let msg = if let Some(s) = e.downcast_ref::<&str>() {
            s.to_string()
        } else if let Some(s) = e.downcast_ref::<String>() {
            s.clone()
        } else {
            "?".to_string()
        };
        let user = msg.starts_with("asv: user");
        let (steps, q) = sched::op_abort();
        sched::log(json!({"e": "panic", "t": sched::tid() as i64, "user": user, "msg": msg, "n": steps as i64}));
        if q {
            quiescent();
        }
    }
}

fn deref_log(kind: &str, r: usize, v: &T) {
    // what the memory behind the pointer says
    let (id, alive, tag) = match v {
        None => (0, true, 0),
        Some(p) => p.read(),
    };
    sched::log(json!({"e": "deref", "t": sched::tid() as i64, "k": kind, "r": r as i64, "o": id as i64, "alive": alive, "tag": tag as i64}));
}

fn run_op_inner<S>(ctx: &Ctx<S>, op: &Op)
where
    S: Strategy<T> + CaS<T> + CurForms + Default + Send + Sync + 'static,
    S::Protected: Send,
{
    let w = &ctx.w;
    // a target register that is still occupied is released first, as an operation of its own
    match op {
        Op::Load { g, .. } | Op::FromInner { g, .. } | Op::Cas { g, .. } => {
            run_op_inner(ctx, &Op::DropG { g: *g })
        }
        Op::LoadFull { h, .. }
        | Op::IntoInner { h, .. }
        | Op::Swap { h, .. }
        | Op::Rcu { h, .. }
        | Op::IntoInnerC { h, .. } => run_op_inner(ctx, &Op::DropH { h: *h }),
        Op::CacheNew { x, .. } => run_op_inner(ctx, &Op::CacheDrop { x: *x }),
        Op::AccLoad { p, .. } => run_op_inner(ctx, &Op::DropP { p: *p }),
        Op::CacheClone { y, .. } => run_op_inner(ctx, &Op::CacheDrop { x: *y }),
        _ => {}
    }
    match op {
        Op::New { c, v } => {
            inv("new", *c as i64, -1, 0, 0);
            let val = mk_src(w, v, -1);
            let id = val_id(&val);
            arg(id);
            let cont = Cont::new(ArcSwapAny::<T, S>::new(val));
            let addr = cont.verif_ptr_addr();
            sched::with(|g| g.roles.add_storage(addr, *c as i64));
            put(&mut wl(w).conts, *c, cont);
            ret("new", *c as i64, id, 0, 0);
        }
        Op::Load { c, g } => {
            let Some(cont) = cont(w, *c) else { return };
            inv("load", *c as i64, 0, 0, *g as i64);
            let guard = cont.load();
            let id = val_id(&guard);
            let old = put(&mut wl(w).guards, *g, guard);
            ret("load", *c as i64, id, *g as i64, 0);
            drop(old);
        }
        Op::LoadFull { c, h } => {
            let Some(cont) = cont(w, *c) else { return };
            inv("load_full", *c as i64, 0, 0, *h as i64);
            let v = cont.load_full();
            let id = val_id(&v);
            let old = put(&mut wl(w).handles, *h, v);
            ret("load_full", *c as i64, id, *h as i64, 1);
            drop(old);
        }
        Op::DropG { g } => {
            let Some(guard) = take(&mut wl(w).guards, *g) else { return };
            let id = val_id(&guard);
            inv("drop_g", -1, id, 0, *g as i64);
            drop(guard);
            ret("drop_g", -1, id, *g as i64, 0);
        }
        Op::IntoInner { g, h } => {
            let Some(guard) = take(&mut wl(w).guards, *g) else { return };
            let id = val_id(&guard);
            inv("into_inner", -1, id, *h as i64, *g as i64);
            let v = Guard::into_inner(guard);
            let id2 = val_id(&v);
            let old = put(&mut wl(w).handles, *h, v);
            ret("into_inner", -1, id2, *h as i64, 1);
            drop(old);
        }
        Op::FromInner { h, g } => {
            let Some(v) = take(&mut wl(w).handles, *h) else { return };
            let id = val_id(&v);
            inv("from_inner", -1, id, *h as i64, *g as i64);
            let guard = Guard::<T, S>::from_inner(v);
            let old = put(&mut wl(w).guards, *g, guard);
            ret("from_inner", -1, id, *g as i64, 1);
            drop(old);
        }
        Op::DerefG { g } => {
            let gd = wl(w);
            if let Some(Some(guard)) = gd.guards.get(*g) {
                used("g", *g);
                let v: &T = guard;
                deref_log("g", *g, v);
            }
        }
        Op::DerefH { h } => {
            let gd = wl(w);
            if let Some(Some(v)) = gd.handles.get(*h) {
                used("h", *h);
                deref_log("h", *h, v);
            }
        }
        Op::DropH { h } => {
            let Some(v) = take(&mut wl(w).handles, *h) else { return };
            let id = val_id(&v);
            inv("drop_h", -1, id, 0, *h as i64);
            drop(v);
            ret("drop_h", -1, id, *h as i64, 0);
        }
        Op::Store { c, v } => {
            let Some(cont) = cont(w, *c) else { return };
            inv("store", *c as i64, -1, 0, 0);
            let val = mk_src(w, v, -1);
            arg(val_id(&val));
            cont.store(val);
            ret("store", *c as i64, 0, 0, 0);
        }
        Op::Swap { c, v, h } => {
            let Some(cont) = cont(w, *c) else { return };
            inv("swap", *c as i64, -1, 0, *h as i64);
            let val = mk_src(w, v, -1);
            arg(val_id(&val));
            let old = cont.swap(val);
            let oid = val_id(&old);
            let prev = put(&mut wl(w).handles, *h, old);
            ret("swap", *c as i64, oid, *h as i64, 1);
            drop(prev);
        }
        Op::Cas { c, cur, v, g } => {
            let Some(cont) = cont(w, *c) else { return };
            let id = -1i64;
            // resolve current
            let (cur_id, form): (i64, i64);
            let res: Guard<T, S>;
            match cur {
                Cur::Null => {
                    cur_id = 0;
                    form = 0;
                    inv("cas", *c as i64, cur_id, id, *g as i64);
                    let val = mk_src(w, v, -1);
                    arg(val_id(&val));
                    res = cont.compare_and_swap(std::ptr::null_mut::<crate::vptr::Obj>(), val);
                }
                Cur::H(h) | Cur::RawMut(h) | Cur::RawConst(h) => {
                    used("h", *h);
                    let hv: T = {
                        let gd = wl(w);
                        match gd.handles.get(*h).and_then(|x| x.as_ref()) {
                            Some(v) => match v {
                                // a non-counted alias, forgotten below; the register keeps the owner alive
                                Some(p) => Some(unsafe { std::ptr::read(p) }),
                                None => None,
                            },
                            None => None,
                        }
                    };
                    let hv = std::mem::ManuallyDrop::new(hv);
                    cur_id = val_id(&hv);
                    inv("cas", *c as i64, cur_id, id, *g as i64);
                    let val = mk_src(w, v, -1);
                    arg(val_id(&val));
                    match cur {
                        Cur::H(_) => {
                            form = 1;
                            res = cont.compare_and_swap(&*hv, val);
                        }
                        Cur::RawMut(_) => {
                            form = 2;
                            let p = <T as arc_swap::RefCnt>::as_ptr(&hv);
                            res = cont.compare_and_swap(p, val);
                        }
                        _ => {
                            form = 3;
                            let p = <T as arc_swap::RefCnt>::as_ptr(&hv) as *const crate::vptr::Obj;
                            res = cont.compare_and_swap(p, val);
                        }
                    }
                }
                Cur::G(gi) => {
                    let Some(guard) = take(&mut wl(w).guards, *gi) else {
                        return;
                    };
                    cur_id = val_id(&guard);
                    form = 4;
                    inv("cas", *c as i64, cur_id, id, *g as i64);
                    sched::log(json!({"e": "inv", "t": sched::tid() as i64, "op": "drop_g_arg", "c": -1, "a": cur_id, "b": 0, "r": *gi as i64}));
                    let val = mk_src(w, v, -1);
                    arg(val_id(&val));
                    res = S::cas_g(&cont, guard, val);
                }
                Cur::Gref(gi) => {
                    let Some(guard) = take(&mut wl(w).guards, *gi) else {
                        return;
                    };
                    cur_id = val_id(&guard);
                    form = 5;
                    inv("cas", *c as i64, cur_id, id, *g as i64);
                    let val = mk_src(w, v, -1);
                    arg(val_id(&val));
                    // the guard is only lent to the call: it goes back into its register also when the call unwinds
                    struct Back<'a, S2: Strategy<T>>(&'a Arc<Mutex<World<S2>>>, usize, Option<Guard<T, S2>>);
                    impl<'a, S2: Strategy<T>> Drop for Back<'a, S2> {
                        fn drop(&mut self) {
                            if let Some(g) = self.2.take() {
                                let mut wg = wl(self.0);
                                while wg.guards.len() <= self.1 {
                                    wg.guards.push(None);
                                }
                                wg.guards[self.1] = Some(g);
                            }
                        }
                    }
                    let back = Back(w, *gi, Some(guard));
                    res = S::cas_gref(&cont, back.2.as_ref().unwrap(), val);
                    drop(back);
                }
            }
            let _ = form;
            let rid = val_id(&res);
            let old = put(&mut wl(w).guards, *g, res);
            ret("cas", *c as i64, rid, *g as i64, 0);
            drop(old);
        }
        Op::Rcu { c, h, panic_at, pd, nested, nested_until } => {
            let Some(cont) = cont(w, *c) else { return };
            inv("rcu", *c as i64, 0, 0, *h as i64);
            let mut attempt = 0u32;
            let me = sched::tid() as i64;
            let c_i = *c as i64;
            let old = cont.rcu(|cur: &T| {
                attempt += 1;
                let cid = val_id(cur);
                sched::log(json!({"e": "rcu_f", "t": me, "c": c_i, "cur": cid, "k": attempt as i64}));
                if attempt <= (*nested_until).max(1) {
                    for op in nested.iter() {
                        run_nested(ctx, op);
                    }
                }
                if *panic_at == attempt {
                    panic!("asv: user closure panics (attempt {})", attempt);
                }
                Some(VPtr::alloc(cid, *pd))
            });
            let oid = val_id(&old);
            let prev = put(&mut wl(w).handles, *h, old);
            ret("rcu", *c as i64, oid, *h as i64, 1);
            drop(prev);
        }
        Op::IntoInnerC { c, h } => {
            let Some(cont) = take(&mut wl(w).conts, *c) else { return };
            inv("into_inner_c", *c as i64, 0, 0, *h as i64);
            match cont.try_take() {
                Ok(cs) => {
                    let v = cs.into_inner();
                    let id = val_id(&v);
                    let prev = put(&mut wl(w).handles, *h, v);
                    ret("into_inner_c", *c as i64, id, *h as i64, 1);
                    drop(prev);
                }
                Err(cont) => {
                    // still shared with a cache: cannot consume; put back
                    put(&mut wl(w).conts, *c, cont);
                    ret("noop", *c as i64, 0, 0, 0);
                }
            }
        }
        Op::DropC { c, unwinding } => {
            let Some(cont) = take(&mut wl(w).conts, *c) else { return };
            inv("drop_c", *c as i64, 0, 0, 0);
            match cont.try_take() {
                Ok(cs) => {
                    if *unwinding {
                        // the frame that owns the container panics: the container is dropped while the thread is panicking
                        let _ = catch_unwind(AssertUnwindSafe(move || {
                            let _owned = cs;
                            std::panic::resume_unwind(Box::new("asv: owner of the container panics"));
                        }));
                    } else {
                        drop(cs);
                    }
                    ret("drop_c", *c as i64, 0, 0, 0);
                }
                Err(cont) => {
                    put(&mut wl(w).conts, *c, cont);
                    ret("noop", *c as i64, 0, 0, 0);
                }
            }
        }
        Op::CacheNew { x, c, m } => {
            let Some(cont) = cont(w, *c) else { return };
            inv("cache_new", *c as i64, 0, 0, *x as i64);
            let mut cache = if *m { XCache::Mapped(Cache::new(cont).map(whole as fn(&T) -> &T)) } else { XCache::Plain(Cache::new(cont)) };
            // the value it retains is observed by an immediate load (which may already see a newer one)
            let id = val_id(cache.load());
            let old = put(&mut wl(w).caches, *x, cache);
            ret("cache_new", *c as i64, id, *x as i64, 1);
            drop(old);
        }
        Op::CacheLoad { x } => {
            let Some(mut cache) = take(&mut wl(w).caches, *x) else { return };
            inv("cache_load", -1, 0, 0, *x as i64);
            let v = cache.load();
            let id = val_id(v);
            deref_log("x", *x, v);
            put(&mut wl(w).caches, *x, cache);
            ret("cache_load", -1, id, *x as i64, 0);
        }
        Op::CacheDrop { x } => {
            let Some(cache) = take(&mut wl(w).caches, *x) else { return };
            inv("cache_drop", -1, 0, 0, *x as i64);
            drop(cache);
            ret("cache_drop", -1, 0, *x as i64, 0);
        }
        Op::CacheClone { x, y } => {
            let cl = {
                let gd = wl(w);
                match gd.caches.get(*x).and_then(|c| c.as_ref()) {
                    Some(_) => true,
                    None => false,
                }
            };
            if !cl {
                return;
            }
            inv("cache_clone", -1, *x as i64, 0, *y as i64);
            let cache = take(&mut wl(w).caches, *x).unwrap();
            let mut c2 = cache.clone();
            let id = val_id(c2.load());
            put(&mut wl(w).caches, *x, cache);
            let old = put(&mut wl(w).caches, *y, c2);
            ret("cache_clone", -1, id, *y as i64, 1);
            drop(old);
        }
        Op::Wait { t } => {
            sched::wait_for(*t);
            sched::log(json!({"e": "join", "t": sched::tid() as i64, "u": *t as i64}));
        }
        Op::SetGen { back } => {
            // wraps to 0 after `back` more helping transactions
            let g = 0usize.wrapping_sub(4 * (*back as usize));
            arc_swap::verif::set_generation(g);
            sched::log(json!({"e": "setgen", "t": sched::tid() as i64, "back": *back as i64}));
        }
        Op::Tls { early, ops } => {
            let ctx2 = ctx.clone();
            let ops2 = ops.clone();
            let f: Box<dyn FnOnce()> = Box::new(move || {
                sched::log(json!({"e": "tls_dtor", "t": sched::tid() as i64}));
                for op in ops2.iter() {
                    run_op(&ctx2, op);
                }
            });
            if *early {
                TLS_EARLY.with(|t| *t.borrow_mut() = Some(TlsRunner(Some(f))));
            } else {
                TLS_LATE.with(|t| *t.borrow_mut() = Some(TlsRunner(Some(f))));
            }
        }
        Op::Pad { c, free, base } => {
            let Some(cont) = cont(w, *c) else { return };
            // fill all 8, then release the first `free`
            for i in 0..8usize {
                run_op_inner(ctx, &Op::Load { c: *c, g: base + i });
            }
            let _ = cont;
            for i in 0..*free {
                run_op_inner(ctx, &Op::DropG { g: base + i });
            }
        }
        Op::AccLoad { c, p, kind } => {
            use arc_swap::access::{Access, AccessConvert, DynAccess, Map};
            let Some(cont) = cont(w, *c) else { return };
            inv("acc_load", *c as i64, *kind as i64, 0, *p as i64);
            let pb: Box<dyn ProjG> = match kind {
                0 => Box::new(PT(Access::<T>::load(&cont))),
                1 => {
                    let m = Map::new(cont.clone(), proj_inner as fn(&T) -> &crate::vptr::Inner);
                    Box::new(PInner(Access::<crate::vptr::Inner>::load(&m), 0))
                }
                2 => {
                    let m: Box<dyn DynAccess<crate::vptr::Obj>> = Box::new(Map::new(cont.clone(), proj_obj as fn(&T) -> &crate::vptr::Obj));
                    Box::new(PObj(DynAccess::load(&*m)))
                }
                3 => {
                    let m1 = Map::new(cont.clone(), proj_obj as fn(&T) -> &crate::vptr::Obj);
                    let m2 = Map::new(m1, proj_obj_inner as fn(&crate::vptr::Obj) -> &crate::vptr::Inner);
                    Box::new(PInner(Access::<crate::vptr::Inner>::load(&m2), 0))
                }
                4 => {
                    let m: Box<dyn DynAccess<crate::vptr::Obj>> = Box::new(Map::new(cont.clone(), proj_obj as fn(&T) -> &crate::vptr::Obj));
                    let a = AccessConvert(m);
                    Box::new(PObj(Access::<crate::vptr::Obj>::load(&a)))
                }
                6 | 7 | 8 => {
                    // Constant always yields its own value, also through Map / Map of Map / dynamic dispatch
                    use arc_swap::access::Constant;
                    let k = 4000 + *p as u32;
                    let pb: Box<dyn ProjG> = if *kind == 6 {
                        Box::new(PConst(Access::<u32>::load(&Map::new(Constant(k), id_u32 as fn(&u32) -> &u32)), k))
                    } else if *kind == 7 {
                        let m2 = Map::new(Map::new(Constant(k), id_u32 as fn(&u32) -> &u32), id_u32 as fn(&u32) -> &u32);
                        Box::new(PConst(Access::<u32>::load(&m2), k))
                    } else {
                        let m: Box<dyn DynAccess<u32>> = Box::new(Map::new(Constant(k), id_u32 as fn(&u32) -> &u32));
                        Box::new(PConst(DynAccess::load(&*m), k))
                    };
                    // not a snapshot of the container: only the dereference is checked
                    let (got, _, want) = pb.see();
                    sched::log(json!({"e": "deref", "t": sched::tid() as i64, "k": "k", "r": *p as i64, "o": got as i64, "alive": true, "tag": want as i64}));
                    let pb2 = pb; // moved once more
                    let (got, _, want) = pb2.see();
                    sched::log(json!({"e": "deref", "t": sched::tid() as i64, "k": "k", "r": *p as i64, "o": got as i64, "alive": true, "tag": want as i64}));
                    ret("noop", *c as i64, 0, 0, 0);
                    return;
                }
                _ => {
                    // the container's own map() over a reference: the guard borrows, so evaluate it here
                    let m = cont.map(proj_obj as fn(&T) -> &crate::vptr::Obj);
                    let g = Access::<crate::vptr::Obj>::load(&m);
                    let (id, alive) = g.peek();
                    sched::log(json!({"e": "deref", "t": sched::tid() as i64, "k": "m", "r": *p as i64, "o": id as i64, "alive": alive, "tag": g.inner_ref().tag.load(std::sync::atomic::Ordering::Relaxed) as i64}));
                    drop(g);
                    Box::new(PT(Access::<T>::load(&cont)))
                }
            };
            let (id, _alive, _tag) = pb.see();
            put(&mut wl(w).projs, *p, ProjBox(pb));
            ret("acc_load", *c as i64, id as i64, *p as i64, 0);
        }
        Op::Ser { c } => {
            let Some(cont) = cont(w, *c) else { return };
            inv("ser", *c as i64, 0, 0, 0);
            let v = serde_json::to_value(&*cont).unwrap_or(serde_json::Value::Null);
            let id = v.as_i64().unwrap_or(0);
            ret("ser", *c as i64, id, 0, 0);
        }
        Op::DerefP { p } => {
            let gd = wl(w);
            if let Some(Some(pb)) = gd.projs.get(*p) {
                used("p", *p);
                let (id, alive, tag) = pb.0.see();
                sched::log(json!({"e": "deref", "t": sched::tid() as i64, "k": "p", "r": *p as i64, "o": id as i64, "alive": alive, "tag": tag as i64}));
            }
        }
        Op::DropP { p } => {
            let Some(pb) = take(&mut wl(w).projs, *p) else { return };
            let (id, _, _) = pb.0.see();
            inv("drop_p", -1, id as i64, 0, *p as i64);
            drop(pb);
            ret("drop_p", -1, id as i64, *p as i64, 0);
        }
        Op::Nop => {
            sched::yield_point(false);
        }
    }
}

fn run_nested<S>(ctx: &Ctx<S>, op: &Op)
where
    S: Strategy<T> + CaS<T> + CurForms + Default + Send + Sync + 'static,
    S::Protected: Send,
{
    // nested operations inside an rcu closure: logged as sub-operations of the same thread
    sched::log(json!({"e": "nest", "t": sched::tid() as i64, "d": 1}));
    run_op_inner(ctx, op);
    sched::log(json!({"e": "nest", "t": sched::tid() as i64, "d": -1}));
}

/// The finalizer: drop everything that is left, in a fixed order.
pub fn finalize<S>(ctx: &Ctx<S>)
where
    S: Strategy<T> + CaS<T> + CurForms + Default + Send + Sync + 'static,
    S::Protected: Send,
{
    let (ng, nh, nx, nc, np) = {
        let g = wl(&ctx.w);
        (g.guards.len(), g.handles.len(), g.caches.len(), g.conts.len(), g.projs.len())
    };
    for p in 0..np {
        run_op(ctx, &Op::DropP { p });
    }
    for x in 0..nx {
        run_op(ctx, &Op::CacheDrop { x });
    }
    for g in 0..ng {
        run_op(ctx, &Op::DropG { g });
    }
    for c in 0..nc {
        run_op(ctx, &Op::DropC { c, unwinding: false });
    }
    for h in 0..nh {
        run_op(ctx, &Op::DropH { h });
    }
}

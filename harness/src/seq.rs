//! Sequential checks (C14, C15, C19, C20): filled in later.
pub fn main(_args: &[String]) {
    eprintln!("seq: not implemented yet");
    std::process::exit(2);
}

//! Sequential law checks on the real pointer kinds (C15): executes the programs enumerated by TLC from
//! spec/RefCntLaws.tla on Arc / Rc / Option<..> / Weak for several pointee layouts and compares the counts,
//! null-ness and pointer identities the laws predict with what the implementations do.
//! Also: the auto-trait table (C19) and the serde relation (C20).

use std::io::BufRead;

use arc_swap::RefCnt;
use serde_json::{json, Value};

#[derive(Default, Clone, Debug, serde::Serialize, serde::Deserialize, PartialEq)]
pub struct Zst;
#[repr(align(64))]
#[derive(Default, Clone, Debug)]
pub struct A64(#[allow(dead_code)] u8);

/// The family-specific part: how to make handles of the kind under test, how to observe the counts.
trait Fam {
    type K: RefCnt;
    /// a fresh allocation: (owner kept by the test, observer weak)
    fn name() -> &'static str;
}

macro_rules! run_family {
    ($fname:ident, $strong:ident, $weak:ident, $kindname:expr) => {
        /// kind: "strong" (option: whether the handle type is Option<..>) or "weak"
        fn $fname<T: Default + 'static>(prog: &Value, option: bool, tname: &str) -> Result<usize, String> {
            use std::mem::ManuallyDrop;
            let kind = prog["kind"].as_str().unwrap();
            let witness = prog["witness"].as_i64().unwrap() == 1;
            let extra_weak = prog["extra_weak"].as_i64().unwrap() as usize;
            let init: Vec<&str> = prog["init"].as_array().unwrap().iter().map(|x| x.as_str().unwrap()).collect();
            let base: $strong<T> = $strong::new(T::default());
            let canon = $strong::as_ptr(&base) as *mut T;
            // test-held weak references; the first one is the observer
            let weaks: Vec<$weak<T>> = (0..extra_weak).map(|_| $strong::downgrade(&base)).collect();
            let obs = weaks[0].clone();
            drop(weaks.get(0)); // (no-op: keep the vector alive)
            // the observer itself is one more weak reference than the model counts
            let observe = |obs: &$weak<T>| -> (usize, usize) {
                let s = obs.strong_count();
                let w = obs.weak_count();
                (s, if s > 0 { w - 1 } else { 0 })
            };
            let mut steps = 0usize;
            macro_rules! body {
                ($K:ty, $mk_p:expr, $mk_e:expr, $is_weak:expr, $upgrade:expr) => {{
                    let mut hs: Vec<Option<$K>> = Vec::new();
                    for h in init.iter() {
                        hs.push(Some(if *h == "p" { $mk_p(&base) } else { $mk_e() }));
                    }
                    let mut rs: Vec<Option<*mut <$K as RefCnt>::Base>> = Vec::new();
                    let mut wit: Option<$strong<T>> = if witness { Some(base.clone()) } else { None };
                    drop(base);
                    if !witness && !$is_weak && !init.contains(&"p") {
                        return Ok(0); // nothing keeps the target alive and nothing of the kind points to it
                    }
                    for (k, op) in prog["ops"].as_array().unwrap().iter().enumerate() {
                        let name = op["op"].as_str().unwrap();
                        let at = |f: &str| op[f].as_u64().unwrap() as usize - 1;
                        let fail = |what: String| -> String {
                            format!("{} {} pointee={} step {} ({}): {}", $kindname, if option { "Option" } else { "plain" }, tname, k + 1, name, what)
                        };
                        match name {
                            "into_ptr" => {
                                let h = hs[at("h")].take().unwrap();
                                let expect_null = op["null"].as_bool().unwrap();
                                let as_p = <$K as RefCnt>::as_ptr(&h);
                                let p = <$K as RefCnt>::into_ptr(h);
                                if p != as_p {
                                    return Err(fail("as_ptr differs from what into_ptr gives".into()));
                                }
                                if p.is_null() != expect_null {
                                    return Err(fail(format!("null-ness {} expected {}", p.is_null(), expect_null)));
                                }
                                if !p.is_null() && p as *mut T != canon {
                                    return Err(fail("raw pointer is not the address of the pointee".into()));
                                }
                                rs.push(Some(p));
                            }
                            "from_ptr" => {
                                let p = rs[at("r")].take().unwrap();
                                let h = unsafe { <$K as RefCnt>::from_ptr(p) };
                                if <$K as RefCnt>::as_ptr(&h) != p {
                                    return Err(fail("round trip changed the identity".into()));
                                }
                                hs.push(Some(h));
                            }
                            "as_ptr" => {
                                let h = hs[at("h")].as_ref().unwrap();
                                let p = <$K as RefCnt>::as_ptr(h);
                                let expect_null = op["null"].as_bool().unwrap();
                                if p.is_null() != expect_null {
                                    return Err(fail(format!("null-ness {} expected {}", p.is_null(), expect_null)));
                                }
                                if !p.is_null() && p as *mut T != canon {
                                    return Err(fail("as_ptr is not the address of the pointee".into()));
                                }
                            }
                            "inc" => {
                                let h = hs[at("h")].as_ref().unwrap();
                                let p = <$K as RefCnt>::inc(h);
                                if p != <$K as RefCnt>::as_ptr(h) {
                                    return Err(fail("inc returned another pointer than as_ptr".into()));
                                }
                                rs.push(Some(p));
                            }
                            "dec" => {
                                let p = rs[at("r")].take().unwrap();
                                unsafe { <$K as RefCnt>::dec(p) };
                            }
                            "clone" => {
                                let h = hs[at("h")].as_ref().unwrap().clone();
                                hs.push(Some(h));
                            }
                            "drop" => {
                                drop(hs[at("h")].take());
                            }
                            "drop_witness" => {
                                drop(wit.take());
                            }
                            "upgrade" => {
                                let h = hs[at("h")].as_ref().unwrap();
                                let ok: bool = $upgrade(h);
                                if ok != op["ok"].as_bool().unwrap() {
                                    return Err(fail(format!("upgrade succeeded: {} expected {}", ok, op["ok"])));
                                }
                            }
                            _ => return Err(fail("unknown op".into())),
                        }
                        let got = observe(&obs);
                        let want = (op["strong"].as_u64().unwrap() as usize, op["weak"].as_u64().unwrap() as usize);
                        if got != want {
                            return Err(fail(format!("counts (strong, weak) = {:?}, the laws predict {:?}", got, want)));
                        }
                        steps += 1;
                    }
                    // release what is left so that nothing leaks between programs
                    for r in rs.iter_mut() {
                        if let Some(p) = r.take() {
                            unsafe { <$K as RefCnt>::dec(p) };
                        }
                    }
                    drop(hs);
                    drop(wit);
                    let _ = ManuallyDrop::new(0);
                    let end = observe(&obs);
                    if end.0 != 0 {
                        return Err(format!("{} pointee={}: target still alive after everything was released: {:?}", $kindname, tname, end));
                    }
                }};
            }
            if kind == "strong" {
                if option {
                    body!(Option<$strong<T>>, |b: &$strong<T>| Some(b.clone()), || None::<$strong<T>>, false, |_h: &Option<$strong<T>>| true);
                } else {
                    if init.contains(&"e") {
                        return Ok(0);
                    }
                    body!($strong<T>, |b: &$strong<T>| b.clone(), || -> $strong<T> { unreachable!() }, false, |_h: &$strong<T>| true);
                }
            } else {
                body!($weak<T>, |b: &$strong<T>| $strong::downgrade(b), || $weak::<T>::new(), true, |h: &$weak<T>| h.upgrade().is_some());
            }
            drop(weaks);
            Ok(steps)
        }
    };
}

use std::rc::{Rc, Weak as RcWeak};
use std::sync::{Arc, Weak};
run_family!(run_sync, Arc, Weak, "Arc-family");
run_family!(run_rc, Rc, RcWeak, "Rc-family");

fn laws(path: &str) -> Value {
    let f = std::fs::File::open(path).expect("open laws");
    let mut programs = 0usize;
    let mut runs = 0usize;
    let mut steps = 0usize;
    let mut failures: Vec<Value> = Vec::new();
    for line in std::io::BufReader::new(f).lines() {
        let line = line.unwrap();
        if line.trim().is_empty() {
            continue;
        }
        let prog: Value = serde_json::from_str(&line).expect("law json");
        programs += 1;
        macro_rules! each {
            ($f:ident, $T:ty, $tn:expr) => {
                for option in [false, true] {
                    if prog["kind"] == "weak" && option {
                        continue;
                    }
                    let r = std::panic::catch_unwind(std::panic::AssertUnwindSafe(|| $f::<$T>(&prog, option, $tn)));
                    runs += 1;
                    match r {
                        Ok(Ok(n)) => steps += n,
                        Ok(Err(e)) => {
                            if failures.len() < 20 {
                                failures.push(json!({"why": e, "program": prog}));
                            }
                        }
                        Err(_) => {
                            if failures.len() < 20 {
                                failures.push(json!({"why": format!("panic in {} pointee={}", stringify!($f), $tn), "program": prog}));
                            }
                        }
                    }
                }
            };
        }
        each!(run_sync, usize, "usize");
        each!(run_sync, Zst, "zst");
        each!(run_sync, A64, "align64");
        each!(run_sync, String, "String");
        each!(run_rc, usize, "usize");
        each!(run_rc, Zst, "zst");
        each!(run_rc, A64, "align64");
        each!(run_rc, String, "String");
    }
    // the marker of an empty debt slot is not a possible pointer of any supported kind
    let mut none_collisions = 0usize;
    for _ in 0..64 {
        let a = Arc::new(Zst);
        let b = Arc::new(Zst);
        let pa = <Arc<Zst> as RefCnt>::as_ptr(&a) as usize;
        let pb = <Arc<Zst> as RefCnt>::as_ptr(&b) as usize;
        if pa == pb || pa == arc_swap::verif::DEBT_NONE || pa == 0 {
            none_collisions += 1;
        }
    }
    // as_ptr only BORROWS: the count does not move even for a moment (another thread looking at the count meanwhile, or a
    // concurrent last release, would see the difference). One thread calls as_ptr in a loop, this one samples the count.
    {
        use std::sync::atomic::{AtomicBool, Ordering};
        let a = Arc::new(7usize);
        let oa: Option<Arc<usize>> = Some(Arc::new(8usize));
        let stop = Arc::new(AtomicBool::new(false));
        let (a2, oa2, stop2) = (a.clone(), oa.clone(), stop.clone());
        let worker = std::thread::spawn(move || {
            let mut n = 0usize;
            while !stop2.load(Ordering::Relaxed) && n < 3_000_000 {
                std::hint::black_box(<Arc<usize> as RefCnt>::as_ptr(&a2));
                std::hint::black_box(<Option<Arc<usize>> as RefCnt>::as_ptr(&oa2));
                n += 1;
            }
        });
        let mut seen = (2usize, 2usize);
        let t0 = std::time::Instant::now();
        while t0.elapsed().as_millis() < 150 && !worker.is_finished() {
            seen.0 = seen.0.max(Arc::strong_count(&a));
            seen.1 = seen.1.max(Arc::strong_count(oa.as_ref().unwrap()));
        }
        stop.store(true, Ordering::Relaxed);
        let _ = worker.join();
        if seen != (2, 2) && failures.len() < 20 {
            failures.push(json!({"why": format!("as_ptr moves the strong count while it runs (Arc: up to {}, Option<Arc>: up to {}, expected 2): it must only borrow", seen.0, seen.1), "program": {"kind": "as_ptr_transient"}}));
        }
        steps += 1;
    }
    json!({"programs": programs, "runs": runs, "steps": steps, "failures": failures, "zst_collisions": none_collisions})
}

pub fn main(args: &[String]) {
    std::panic::set_hook(Box::new(|_| {}));
    let out = match args.first().map(|s| s.as_str()) {
        Some("laws") => laws(&args[1]),
        Some("autotraits") => crate::traits::table(),
        Some("serde") => crate::serde_check::run(&args[1]),
        Some("serde_hist") => crate::serde_check::run_histories(&args[1]),
        Some("cache_views") => crate::cache_views::run(&args[1]),
        _ => {
            eprintln!("usage: asv seq laws FILE | autotraits | serde FILE");
            std::process::exit(2);
        }
    };
    println!("{}", out);
}

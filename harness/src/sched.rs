//! Deterministic baton scheduler + the hook installed into arc-swap's atomics shim.
//!
//! Logical threads are real OS threads (the crate uses real thread-locals). Exactly one logical
//! thread holds the baton at any time; every scheduling point (shim access, count operation of
//! `VPtr`, operation invocation) asks the strategy who goes next. The log order therefore *is*
//! the execution order.

use std::cell::Cell;
use std::sync::atomic::{AtomicBool, AtomicU64, Ordering};
use std::sync::{Condvar, Mutex};
use std::time::{Duration, Instant};

use arc_swap::verif::{Access, Decision, Hook, Kind};
use serde_json::{json, Value};

use crate::roles::Roles;

thread_local! {
    /// Logical thread id of this OS thread (usize::MAX = not a logical thread).
    pub static TID: Cell<usize> = const { Cell::new(usize::MAX) };
}

pub fn tid() -> usize {
    TID.with(|t| t.get())
}

#[derive(Clone, Copy, Debug, PartialEq, Eq)]
pub enum TState {
    NotStarted,
    Runnable,
    /// Waiting for another logical thread to be gone.
    WaitFor(usize),
    /// Blocked outside the scheduler's control (on an OS lock held by another logical thread, e.g. the RwLock of the
    /// lock-based strategy); the baton was taken away from it. It becomes Runnable again at its next scheduling point.
    Stalled,
    Gone,
}

/// A point at which the strategy is consulted.
pub struct Point<'a> {
    /// The thread currently holding the baton (it is at a scheduling point).
    pub cur: usize,
    pub cur_runnable: bool,
    pub runnable: &'a [usize],
    pub step: usize,
    /// Number of completed API operations per thread.
    pub ops_done: &'a [usize],
    /// Whether each thread is inside an API operation.
    pub in_op: &'a [bool],
    /// This point is a compare_exchange_weak of the current thread.
    pub cas_weak: bool,
    /// Threads that have terminated.
    pub gone: &'a [bool],
    /// What each thread is about to do at the scheduling point it is parked at ("role.n.i.kind", "inc", "dec", "inv", "" unknown).
    pub sites: &'a [String],
}

pub trait Strategy: Send {
    /// Who runs next (must be in `p.runnable`).
    fn pick(&mut self, p: &Point) -> usize;
    /// Should the compare_exchange_weak about to be executed fail spuriously?
    fn spurious(&mut self, _p: &Point) -> bool {
        false
    }
    /// How well the plan could be followed (for directed strategies).
    fn summary(&self) -> Value {
        json!({"segments": 0, "reached": 0, "missed": 0, "first_missed": -1, "solo_max": 0})
    }
}

pub struct Inner {
    pub cur: usize,
    pub states: Vec<TState>,
    pub ops_done: Vec<usize>,
    pub in_op: Vec<bool>,
    pub depth: Vec<usize>,
    /// own scheduling points inside the current op, per thread
    pub op_steps: Vec<usize>,
    pub step: usize,
    pub strategy: Option<Box<dyn Strategy>>,
    pub schedule: Vec<Value>,
    pub events: Vec<Value>,
    pub roles: Roles,
    pub active: bool,
    pub spurious_in_op: Vec<usize>,
    pub step_limit: usize,
    pub overrun: bool,
    pub log_atomics: bool,
    /// Stale-value injections: (global step index -> raw value)
    pub stale: std::collections::HashMap<usize, usize>,
    pub sites: Vec<String>,
    /// OS thread ids of the logical threads (to tell "blocked in the kernel" from "slow")
    pub os_tid: Vec<i64>,
    /// take the baton away from a thread that sleeps in the kernel while holding it (lock-based strategy only)
    pub steal_stalled: bool,
    /// (thread, step, consecutive observations of it sleeping)
    pub stall_obs: (usize, usize, u32),
    pub stalls: usize,
}

pub struct Sched {
    pub m: Mutex<Inner>,
    pub cv: Condvar,
    pub last_progress: AtomicU64,
    pub enabled: AtomicBool,
}

pub static SCHED: std::sync::LazyLock<Sched> = std::sync::LazyLock::new(|| Sched {
    m: Mutex::new(Inner {
        cur: usize::MAX,
        states: Vec::new(),
        ops_done: Vec::new(),
        in_op: Vec::new(),
        depth: Vec::new(),
        op_steps: Vec::new(),
        step: 0,
        strategy: None,
        schedule: Vec::new(),
        events: Vec::new(),
        roles: Roles::new(),
        active: false,
        spurious_in_op: Vec::new(),
        step_limit: 60_000,
        overrun: false,
        log_atomics: true,
        stale: std::collections::HashMap::new(),
        sites: Vec::new(),
        os_tid: Vec::new(),
        steal_stalled: false,
        stall_obs: (usize::MAX, 0, 0),
        stalls: 0,
    }),
    cv: Condvar::new(),
    last_progress: AtomicU64::new(0),
    enabled: AtomicBool::new(false),
});

static START: std::sync::OnceLock<Instant> = std::sync::OnceLock::new();
fn now_ms() -> u64 {
    START.get_or_init(Instant::now).elapsed().as_millis() as u64
}

/// IN_LOCK[t]: logical thread t is waiting for the scheduler's own mutex (then it sleeps in the kernel because of us)
static IN_LOCK: [AtomicBool; 64] = [const { AtomicBool::new(false) }; 64];

fn lock() -> std::sync::MutexGuard<'static, Inner> {
    let me0 = tid();
    if me0 < 64 {
        IN_LOCK[me0].store(true, Ordering::SeqCst);
    }
    let mut g = match SCHED.m.lock() {
        Ok(g) => g,
        Err(p) => p.into_inner(),
    };
    if me0 < 64 {
        IN_LOCK[me0].store(false, Ordering::SeqCst);
    }
    // A logical thread from which the baton was taken away while it slept in the kernel is back: before it does
    // anything visible (log an event, end its operation) it waits for a turn, so that the log stays a total order.
    let me = tid();
    if me < g.states.len() && g.states[me] == TState::Stalled && g.active {
        g.states[me] = TState::Runnable;
        if g.cur == usize::MAX {
            g.cur = me;
        }
        g = wait_for_baton(g, me);
    }
    g
}

impl Inner {
    fn runnable(&self) -> Vec<usize> {
        let mut r = Vec::new();
        for (i, s) in self.states.iter().enumerate() {
            match *s {
                TState::NotStarted | TState::Runnable => r.push(i),
                TState::WaitFor(u) => {
                    if self.states[u] == TState::Gone {
                        r.push(i)
                    }
                }
                TState::Gone | TState::Stalled => {}
            }
        }
        r
    }

    /// Ask the strategy who goes next; record it.
    fn choose(&mut self, cur: usize, cas_weak: bool) -> (usize, bool) {
        let runnable = self.runnable();
        if runnable.is_empty() {
            return (usize::MAX, false);
        }
        let cur_runnable = runnable.contains(&cur);
        let mut strategy = self.strategy.take().expect("strategy");
        let gone: Vec<bool> = self.states.iter().map(|s| *s == TState::Gone).collect();
        let sites = self.sites.clone();
        let p = Point {
            gone: &gone,
            sites: &sites,
            cur,
            cur_runnable,
            runnable: &runnable,
            step: self.step,
            ops_done: &self.ops_done,
            in_op: &self.in_op,
            cas_weak,
        };
        let mut next = strategy.pick(&p);
        if !runnable.contains(&next) {
            next = if cur_runnable { cur } else { runnable[0] };
        }
        if self.step > self.step_limit {
            // the plan did not terminate (somebody spins): schedule fairly so that waiting loops can finish
            self.overrun = true;
            next = runnable[self.step % runnable.len()];
            if self.step > 4 * self.step_limit {
                eprintln!("asv: execution does not terminate even under fair scheduling");
                std::process::exit(3);
            }
        }
        let mut spur = false;
        if cas_weak && next == cur && self.spurious_in_op[cur] < 1 {
            spur = strategy.spurious(&p);
        }
        self.strategy = Some(strategy);
        if self.step > self.step_limit {
            self.overrun = true;
        }
        (next, spur)
    }
}

/// Is the OS thread sleeping in the kernel (state S: e.g. blocked on a futex), as opposed to running / runnable?
fn os_sleeping(os_tid: i64) -> bool {
    if os_tid <= 0 {
        return false;
    }
    match std::fs::read_to_string(format!("/proc/self/task/{}/stat", os_tid)) {
        Ok(s) => match s.rfind(')') {
            Some(i) => s[i + 1..].trim_start().starts_with('S'),
            None => false,
        },
        Err(_) => false,
    }
}

/// Wait (as logical thread `me`) until the baton is mine. While waiting, watch the holder: if it sleeps in the kernel
/// without having reached a scheduling point (it blocks on a lock that a parked thread holds), the baton is taken
/// away from it and given to somebody runnable. Sound also when the diagnosis is wrong: a thread marked Stalled parks
/// at its next scheduling point like any other; and the diagnosis needs the thread to be in state S twice in a row.
fn wait_for_baton(mut g: std::sync::MutexGuard<'static, Inner>, me: usize) -> std::sync::MutexGuard<'static, Inner> {
    while g.cur != me {
        if !g.steal_stalled {
            g = match SCHED.cv.wait(g) {
                Ok(g) => g,
                Err(p) => p.into_inner(),
            };
            continue;
        }
        let (g2, to) = match SCHED.cv.wait_timeout(g, std::time::Duration::from_millis(3)) {
            Ok(x) => x,
            Err(p) => p.into_inner(),
        };
        g = g2;
        if !to.timed_out() || g.cur == me || !g.active {
            continue;
        }
        let cur = g.cur;
        if cur >= g.states.len() || cur >= 64 || g.states[cur] != TState::Runnable {
            continue;
        }
        let idle = now_ms().saturating_sub(SCHED.last_progress.load(Ordering::Relaxed));
        if idle < 4 {
            continue;
        }
        // look at the holder WITHOUT holding the scheduler's mutex (it may be waiting for exactly that)
        let (step, os) = (g.step, g.os_tid[cur]);
        drop(g);
        let blocked = !IN_LOCK[cur].load(Ordering::SeqCst) && os_sleeping(os) && !IN_LOCK[cur].load(Ordering::SeqCst);
        g = match SCHED.m.lock() {
            Ok(g) => g,
            Err(p) => p.into_inner(),
        };
        if g.cur != cur || g.step != step || !g.active || g.states[cur] != TState::Runnable {
            continue;
        }
        if !blocked {
            g.stall_obs = (usize::MAX, 0, 0);
            continue;
        }
        if g.stall_obs.0 == cur && g.stall_obs.1 == g.step {
            g.stall_obs.2 += 1;
        } else {
            g.stall_obs = (cur, g.step, 1);
        }
        if g.stall_obs.2 < 3 || IN_LOCK[cur].load(Ordering::SeqCst) {
            continue;
        }
        // take the baton away
        g.stall_obs = (usize::MAX, 0, 0);
        g.states[cur] = TState::Stalled;
        g.stalls += 1;
        let (next, _) = g.choose(cur, false);
        if next == usize::MAX {
            // nobody else can run either: leave it to the hang detection
            g.states[cur] = TState::Runnable;
            continue;
        }
        g.schedule.push(json!({"t": next, "f": "stall"}));
        g.step += 1;
        g.cur = next;
        SCHED.last_progress.store(now_ms(), Ordering::Relaxed);
        SCHED.cv.notify_all();
    }
    g
}

/// A scheduling point of the calling logical thread. Returns when the thread may perform its
/// next step. `cas_weak`: the step is a compare_exchange_weak; the result says whether it should
/// fail spuriously.
pub fn yield_point(cas_weak: bool) -> bool {
    yield_at(cas_weak, "")
}

/// Like `yield_point`, telling the strategy what the thread is about to do.
pub fn yield_at(cas_weak: bool, site: &str) -> bool {
    let me = tid();
    if me == usize::MAX || !SCHED.enabled.load(Ordering::Relaxed) {
        return false;
    }
    let mut g = lock();
    if !g.active {
        return false;
    }
    if me < g.states.len() && g.states[me] == TState::Stalled {
        // back from the kernel: runnable again, wait for a turn like everybody else
        g.states[me] = TState::Runnable;
        if g.cur == usize::MAX {
            g.cur = me;
        }
        g = wait_for_baton(g, me);
    }
    debug_assert_eq!(g.cur, me);
    SCHED.last_progress.store(now_ms(), Ordering::Relaxed);
    if me < g.sites.len() {
        g.sites[me].clear();
        g.sites[me].push_str(site);
    }
    let (next, spur) = g.choose(me, cas_weak);
    g.step += 1;
    if g.in_op[me] {
        g.op_steps[me] += 1;
    }
    if spur {
        g.spurious_in_op[me] += 1;
        g.schedule.push(json!({"t": next, "f": "spurious"}));
    } else {
        g.schedule.push(json!(next));
    }
    if next != me {
        g.cur = next;
        SCHED.cv.notify_all();
        g = wait_for_baton(g, me);
    }
    drop(g);
    spur
}

/// Called by a logical thread at its very beginning: waits for its first turn.
pub fn thread_begin(me: usize) {
    TID.with(|t| t.set(me));
    let mut g = lock();
    if me < g.os_tid.len() {
        g.os_tid[me] = unsafe { libc::syscall(libc::SYS_gettid) } as i64;
    }
    g = wait_for_baton(g, me);
    if g.states[me] == TState::NotStarted {
        g.states[me] = TState::Runnable;
    }
}

/// Block the calling logical thread until thread `u` is gone.
pub fn wait_for(u: usize) {
    let me = tid();
    {
        let mut g = lock();
        g.states[me] = TState::WaitFor(u);
    }
    yield_point(false);
    let mut g = lock();
    g.states[me] = TState::Runnable;
}

/// The OS thread of logical thread `id` has terminated (called by its watcher).
pub fn thread_gone(id: usize) {
    let mut g = lock();
    g.states[id] = TState::Gone;
    g.in_op[id] = false;
    g.depth[id] = 0;
    g.events.push(json!({"e": "gone", "t": id}));
    // The departing thread held the baton (unless it was taken away from it while it slept in the kernel).
    if g.cur != id {
        SCHED.cv.notify_all();
        return;
    }
    let (next, _) = g.choose(id, false);
    if next != usize::MAX {
        g.schedule.push(json!(next));
    }
    g.step += 1;
    g.cur = next;
    SCHED.cv.notify_all();
}

pub fn log(ev: Value) {
    let mut g = lock();
    if g.active {
        g.events.push(ev);
    }
}

/// Best effort (used from the abort handler): the events logged so far, if the scheduler state can be had.
pub fn try_events() -> Option<Vec<Value>> {
    match SCHED.m.try_lock() {
        Ok(g) => Some(g.events.clone()),
        Err(std::sync::TryLockError::Poisoned(p)) => Some(p.into_inner().events.clone()),
        Err(_) => None,
    }
}

pub fn with<R>(f: impl FnOnce(&mut Inner) -> R) -> R {
    let mut g = lock();
    f(&mut g)
}

/// Start an execution with `n` logical threads. The first thread to run is chosen by the strategy.
pub fn begin_execution(n: usize, strategy: Box<dyn Strategy>, log_atomics: bool) {
    let mut g = lock();
    g.states = vec![TState::NotStarted; n];
    g.ops_done = vec![0; n];
    g.in_op = vec![false; n];
    g.depth = vec![0; n];
    g.op_steps = vec![0; n];
    g.spurious_in_op = vec![0; n];
    g.sites = vec![String::new(); n];
    g.os_tid = vec![0; n];
    g.stall_obs = (usize::MAX, 0, 0);
    g.stalls = 0;
    g.step = 0;
    g.strategy = Some(strategy);
    g.schedule.clear();
    g.events.clear();
    g.roles = Roles::new();
    g.active = true;
    g.overrun = false;
    g.log_atomics = log_atomics;
    g.cur = usize::MAX;
    SCHED.enabled.store(true, Ordering::SeqCst);
    SCHED.last_progress.store(now_ms(), Ordering::Relaxed);
}

pub fn kick_off() {
    let mut g = lock();
    let (next, _) = g.choose(usize::MAX, false);
    g.schedule.push(json!(next));
    g.step += 1;
    g.cur = next;
    SCHED.cv.notify_all();
}

/// Wait until all logical threads are gone.
pub fn wait_all_gone() {
    let mut g = lock();
    // (nobody holding the baton is not enough: a thread from which it was taken away may still be on its way back)
    while g.cur != usize::MAX || g.states.iter().any(|s| *s == TState::Stalled) {
        g = match SCHED.cv.wait(g) {
            Ok(g) => g,
            Err(p) => p.into_inner(),
        };
    }
    g.active = false;
    SCHED.enabled.store(false, Ordering::SeqCst);
}

pub fn op_begin() {
    let me = tid();
    let mut g = lock();
    if me < g.in_op.len() {
        g.depth[me] += 1;
        if g.depth[me] == 1 {
            g.in_op[me] = true;
            g.op_steps[me] = 0;
            g.spurious_in_op[me] = 0;
        }
    }
}

/// The current thread starts its exit phase (counts as being inside an operation until gone).
pub fn exit_begin() {
    let me = tid();
    let mut g = lock();
    if me < g.in_op.len() {
        g.depth[me] = 1;
        g.in_op[me] = true;
        g.op_steps[me] = 0;
    }
}

/// An operation unwound by a panic: all nesting levels are gone.
pub fn op_abort() -> (usize, bool) {
    let me = tid();
    let mut g = lock();
    if me < g.in_op.len() {
        g.depth[me] = 0;
        g.in_op[me] = false;
        g.ops_done[me] += 1;
        let q = g.in_op.iter().all(|b| !*b);
        (g.op_steps[me], q)
    } else {
        (0, false)
    }
}

/// Returns (own steps of the finished op, whether the system is now quiescent).
pub fn op_end() -> (usize, bool) {
    let me = tid();
    let mut g = lock();
    if me < g.in_op.len() {
        if g.depth[me] > 0 {
            g.depth[me] -= 1;
        }
        if g.depth[me] > 0 {
            return (g.op_steps[me], false);
        }
        g.in_op[me] = false;
        g.ops_done[me] += 1;
        let q = g.in_op.iter().all(|b| !*b);
        (g.op_steps[me], q)
    } else {
        (0, false)
    }
}

fn ord_name(o: std::sync::atomic::Ordering) -> &'static str {
    use std::sync::atomic::Ordering::*;
    match o {
        Relaxed => "rlx",
        Release => "rel",
        Acquire => "acq",
        AcqRel => "ar",
        SeqCst => "sc",
        _ => "?",
    }
}

fn kind_name(k: Kind) -> &'static str {
    match k {
        Kind::Load => "load",
        Kind::Store => "store",
        Kind::Swap => "swap",
        Kind::Cas => "cas",
        Kind::CasWeak => "casw",
        Kind::FetchAdd => "add",
        Kind::FetchSub => "sub",
        Kind::Fence => "fence",
    }
}

pub struct TheHook;

thread_local! {
    static PENDING_SPUR: Cell<bool> = const { Cell::new(false) };
}

impl Hook for TheHook {
    fn before(&self, a: &Access) -> Decision {
        if tid() == usize::MAX || !SCHED.enabled.load(Ordering::Relaxed) {
            return Decision::Proceed;
        }
        let site = {
            let mut g = lock();
            if a.kind == Kind::Fence {
                "fence".to_string()
            } else {
                let r = g.roles.classify(a.addr);
                format!("{}.{}.{}.{}", r.0, r.1[0], r.1[1], kind_name(a.kind))
            }
        };
        let spur = yield_at(a.kind == Kind::CasWeak, &site);
        if spur {
            return Decision::FailSpuriously;
        }
        // stale injection, keyed by the index of this step
        let g = lock();
        if !g.stale.is_empty() {
            if let Some(v) = g.stale.get(&(g.step - 1)) {
                if matches!(a.kind, Kind::Load | Kind::Cas | Kind::CasWeak) {
                    return Decision::Stale(*v);
                }
            }
        }
        Decision::Proceed
    }

    fn after(&self, a: &Access, old: usize, ok: bool) {
        let me = tid();
        if me == usize::MAX || !SCHED.enabled.load(Ordering::Relaxed) {
            return;
        }
        let mut g = lock();
        if !g.active {
            return;
        }
        let role = if a.kind == Kind::Fence {
            ("fence", [0, 0], crate::roles::VT::Raw)
        } else {
            g.roles.classify(a.addr)
        };
        if role.2 == crate::roles::VT::NodePtr {
            g.roles.rescan();
        }
        let is_storage = role.0 == "st";
        if !g.log_atomics && !is_storage {
            return;
        }
        let file = a.file.rsplit('/').next().unwrap_or(a.file);
        let roles = &g.roles;
        let vt = role.2;
        let ev = json!({
            "e": "at",
            "t": me,
            "r": role.0,
            "n": role.1[0],
            "i": role.1[1],
            "k": kind_name(a.kind),
            "o": ord_name(a.ord),
            "fo": a.fail_ord.map(ord_name).unwrap_or("-"),
            "a0": if matches!(a.kind, Kind::Load) { json!(0) } else { roles.abs(vt, a.arg0, a.kind) },
            "a1": if matches!(a.kind, Kind::Cas | Kind::CasWeak) { roles.abs(vt, a.arg1, a.kind) } else { json!(0) },
            "old": roles.abs(vt, old, Kind::Load),
            "ok": ok,
            "loc": format!("{}:{}", file, a.line),
            "s": g.step - 1,
        });
        g.events.push(ev);
        // a successful exchange on a container's storage is the abstract write event
        if is_storage {
            let c = role.1[0];
            match a.kind {
                Kind::Swap | Kind::Store => {
                    let ev = json!({"e": "w", "t": me, "c": c, "old": g.roles.obj_of(old), "new": g.roles.obj_of(a.arg0)});
                    g.events.push(ev);
                }
                Kind::Cas | Kind::CasWeak if ok => {
                    let ev = json!({"e": "w", "t": me, "c": c, "old": g.roles.obj_of(old), "new": g.roles.obj_of(a.arg1)});
                    g.events.push(ev);
                }
                _ => {}
            }
        }
    }
}

pub static HOOK: TheHook = TheHook;

/// Watchdog: if the baton holder makes no progress for `secs`, report and exit(3).
pub fn start_watchdog(secs: u64) {
    std::thread::spawn(move || loop {
        std::thread::sleep(Duration::from_millis(500));
        if SCHED.enabled.load(Ordering::Relaxed) {
            let last = SCHED.last_progress.load(Ordering::Relaxed);
            if now_ms().saturating_sub(last) > secs * 1000 {
                eprintln!("asv: watchdog: no scheduling point for {} s (blocked or spinning outside the shim)", secs);
                std::process::exit(3);
            }
        }
    });
}

//! C16, sequential face: programs enumerated by TLC from spec/CacheViews.tla (stores and loads through every way of
//! looking through a cache) executed on the real types; results and strong counts must be the predicted ones.

use std::io::BufRead;
use std::sync::{Arc, Weak};

use arc_swap::cache::{Access, Cache};
use arc_swap::{ArcSwap, ArcSwapOption};
use serde_json::{json, Value};

#[derive(Debug)]
struct Val {
    id: usize,
}

fn counts(obs: &[Weak<Val>]) -> Vec<usize> {
    obs.iter().map(|w| w.strong_count()).collect()
}

fn want_counts(op: &Value) -> Vec<usize> {
    op["counts"].as_array().unwrap().iter().map(|x| x.as_u64().unwrap() as usize).collect()
}

fn run_plain(prog: &Value) -> Result<usize, String> {
    let first = Arc::new(Val { id: 1 });
    let mut obs = vec![Arc::downgrade(&first)];
    let shared = Arc::new(ArcSwap::new(first));
    let mut c1 = Cache::new(Arc::clone(&shared));
    let mut c2 = Cache::new(Arc::clone(&shared));
    let mut c3 = Cache::new(Arc::clone(&shared)).map(|v: &Arc<Val>| &v.id);
    let mut c4: Option<Cache<Arc<ArcSwap<Val>>, Arc<Val>>> = None;
    let mut n = 0;
    for (k, op) in prog["ops"].as_array().unwrap().iter().enumerate() {
        let name = op["op"].as_str().unwrap();
        let view = op["view"].as_u64().unwrap();
        let fail = |what: String| format!("ArcSwap, step {} ({} view {}): {}", k + 1, name, view, what);
        let mut got: Option<usize> = None;
        match name {
            "store" => {
                let v = Arc::new(Val { id: obs.len() + 1 });
                obs.push(Arc::downgrade(&v));
                shared.store(v);
            }
            "store_same" => {
                let cur = shared.load_full();
                shared.store(cur);
            }
            "load" => {
                got = Some(match view {
                    1 => c1.load().id,
                    2 => <Cache<_, _> as Access<Val>>::load(&mut c2).id,
                    3 => *Access::load(&mut c3),
                    4 => c4.as_mut().unwrap().load().id,
                    _ => return Err(fail("unknown view".into())),
                });
            }
            "clone" => c4 = Some(c1.clone()),
            "drop_clone" => c4 = None,
            _ => return Err(fail("unknown op".into())),
        }
        if let Some(g) = got {
            let want = op["result"].as_u64().unwrap() as usize;
            if g != want {
                return Err(fail(format!("the cache shows value {} but the container holds value {}", g, want)));
            }
        }
        let (gc, wc) = (counts(&obs), want_counts(op));
        if gc != wc {
            return Err(fail(format!("strong counts of the values are {:?}, predicted {:?} (a cache keeps one reference, to the value it last returned)", gc, wc)));
        }
        n += 1;
    }
    Ok(n)
}

fn run_option(prog: &Value) -> Result<usize, String> {
    let first = Arc::new(Val { id: 1 });
    let mut obs = vec![Arc::downgrade(&first)];
    let shared = Arc::new(ArcSwapOption::new(Some(first)));
    let mut c1 = Cache::new(Arc::clone(&shared));
    let mut c3 = Cache::new(Arc::clone(&shared)).map(|v: &Option<Arc<Val>>| v);
    let mut c4: Option<Cache<Arc<ArcSwapOption<Val>>, Option<Arc<Val>>>> = None;
    let idof = |v: &Option<Arc<Val>>| v.as_ref().map(|a| a.id).unwrap_or(0);
    let mut n = 0;
    for (k, op) in prog["ops"].as_array().unwrap().iter().enumerate() {
        let name = op["op"].as_str().unwrap();
        let view = op["view"].as_u64().unwrap();
        let fail = |what: String| format!("ArcSwapOption, step {} ({} view {}): {}", k + 1, name, view, what);
        let mut got: Option<usize> = None;
        match name {
            "store" => {
                let v = Arc::new(Val { id: obs.len() + 1 });
                obs.push(Arc::downgrade(&v));
                shared.store(Some(v));
            }
            "store_same" => {
                let cur = shared.load_full();
                shared.store(cur);
            }
            "store_none" => shared.store(None),
            "load" => {
                got = Some(match view {
                    1 => idof(c1.load()),
                    3 => idof(Access::load(&mut c3)),
                    4 => idof(c4.as_mut().unwrap().load()),
                    _ => return Err(fail("unknown view".into())),
                });
            }
            "clone" => c4 = Some(c1.clone()),
            "drop_clone" => c4 = None,
            _ => return Err(fail("unknown op".into())),
        }
        if let Some(g) = got {
            let want = op["result"].as_u64().unwrap() as usize;
            if g != want {
                return Err(fail(format!("the cache shows value {} but the container holds value {}", g, want)));
            }
        }
        let (gc, wc) = (counts(&obs), want_counts(op));
        if gc != wc {
            return Err(fail(format!("strong counts of the values are {:?}, predicted {:?}", gc, wc)));
        }
        n += 1;
    }
    Ok(n)
}

pub fn run(path: &str) -> Value {
    let f = std::fs::File::open(path).expect("open cache view programs");
    let (mut programs, mut steps) = (0usize, 0usize);
    let mut failures: Vec<Value> = Vec::new();
    for line in std::io::BufReader::new(f).lines() {
        let line = line.unwrap();
        if line.trim().is_empty() {
            continue;
        }
        let prog: Value = serde_json::from_str(&line).expect("program json");
        programs += 1;
        let r = std::panic::catch_unwind(std::panic::AssertUnwindSafe(|| if prog["flavour"] == "plain" { run_plain(&prog) } else { run_option(&prog) }));
        match r {
            Ok(Ok(n)) => steps += n,
            Ok(Err(e)) => {
                if failures.len() < 20 {
                    failures.push(json!({"why": e, "program": prog}));
                }
            }
            Err(_) => {
                if failures.len() < 20 {
                    failures.push(json!({"why": "panic while executing the program", "program": prog}));
                }
            }
        }
    }
    json!({"programs": programs, "steps": steps, "failures": failures})
}
